//! Units discipline on positions (DESIGN §3.6): inventories over the MIR facts + syn-level provenance of error offsets.
//! Shared by C03 (E2), C08 (B1) and C09 (U1, U2).

use crate::mir::{CrateFacts, Facts};
use crate::report::Ctx;
use crate::srcmodel::{self as sm, Src};
use std::collections::{BTreeMap, BTreeSet};

pub fn load_facts(cx: &mut Ctx, rule: &str) -> Option<Facts> {
    let dir = match std::env::var("MIRFACTS_DIR") {
        Ok(d) => d,
        Err(_) => {
            cx.anchor_missing(rule, "MIRFACTS_DIR (run through bin/check, which produces the MIR facts)");
            return None;
        }
    };
    match crate::mir::load(std::path::Path::new(&dir)).map(|f| undo_renames_in_facts(cx, f)) {
        Ok(f) => {
            cx.trust("rustc nightly front end + tools/mirfacts driver (resolved callees, assert terminators)");
            let n: usize = f.crates.values().map(|c| c.funcs.len()).sum();
            let e: usize = f.crates.values().map(|c| c.calls.len()).sum();
            cx.unit("MIR functions", n);
            cx.unit("MIR call edges", e);
            Some(f)
        }
        Err(e) => {
            cx.anchor_missing(rule, &e);
            None
        }
    }
}

/// Private functions that were merely renamed get their reference names back in the MIR facts as well
/// (see srcmodel::undo_private_renames).
fn undo_renames_in_facts(cx: &Ctx, mut f: Facts) -> Facts {
    // make sure the rename maps of the hand-written sources exist
    for rel in ["parser/src/lexer.rs", "parser/src/string.rs", "parser/src/function.rs", "parser/src/soft_keywords.rs", "parser/src/parser.rs", "parser/src/context.rs", "format/src/format.rs", "format/src/cformat.rs"] {
        let _ = sm::load(&cx.repo, rel);
    }
    let maps: Vec<(String, BTreeMap<String, String>)> = sm::FN_RENAMES.with(|r| r.borrow().iter().map(|(k, v)| (k.clone(), v.clone())).collect());
    if maps.is_empty() {
        fold_new_helpers(&mut f);
        return f;
    }
    let fix = |name: &str, file: &str| -> String {
        let mut out = name.to_string();
        for (rel, m) in &maps {
            if !file.ends_with(rel.as_str()) {
                continue;
            }
            for (new, old) in m {
                out = out.replace(&format!("::{}::", new), &format!("::{}::", old));
                if out.ends_with(&format!("::{}", new)) {
                    let cut = out.len() - new.len();
                    out = format!("{}{}", &out[..cut], old);
                }
            }
        }
        out
    };
    for cf in f.crates.values_mut() {
        for x in cf.funcs.iter_mut() {
            x.name = fix(&x.name, &x.file);
        }
        for c in cf.calls.iter_mut() {
            c.caller = fix(&c.caller, &c.file);
            c.callee = fix(&c.callee, &c.file);
        }
        for a in cf.asserts.iter_mut() {
            a.func = fix(&a.func, &a.file);
        }
        for v in cf.valuses.iter_mut() {
            v.func = fix(&v.func, &v.file);
            v.producer = fix(&v.producer, &v.file);
        }
    }
    // (after the renames: a renamed reviewed helper is not a new helper)
    fold_new_helpers(&mut f);
    f
}

/// A private function that is not in the reviewed decomposition (refdata/private_fns.json) and has exactly one
/// caller is part of that caller (the source model splices it back, see inline.rs): its facts are attributed to
/// the caller, so splitting a function in two neither creates nor removes sites, callers or cycles.
fn fold_new_helpers(f: &mut Facts) {
    let Some(verif) = std::env::var_os("VERIF_DIR") else { return };
    let Ok(txt) = std::fs::read_to_string(std::path::Path::new(&verif).join("refdata/private_fns.json")) else { return };
    let Ok(v) = serde_json::from_str::<serde_json::Value>(&txt) else { return };
    let Some(obj) = v.as_object() else { return };
    let reviewed: Vec<(String, BTreeSet<String>)> = obj.iter().map(|(rel, arr)| (rel.clone(), arr.as_array().map(|a| a.iter().filter_map(|r| r.get(1)?.as_str().map(|s| s.to_string())).collect()).unwrap_or_default())).collect();
    let strip = |n: &str| -> String {
        // `a::b::f::<T>::{closure#0}` -> `f`
        let base = crate::rules::c03::fold_closures(n);
        let base = regex::Regex::new(r"::<[^<>]*>$").unwrap().replace(&base, "").to_string();
        base.rsplit("::").next().unwrap_or("").to_string()
    };
    for cf in f.crates.values_mut() {
        for _round in 0..5 {
            let mut map: BTreeMap<String, String> = BTreeMap::new();
            for func in &cf.funcs {
                if func.vis.starts_with("Public") || func.name.starts_with('<') || func.name.contains(" as ") || func.name.contains("{closure#") {
                    continue;
                }
                let Some((_, names)) = reviewed.iter().find(|(rel, _)| func.file.ends_with(rel.as_str())) else { continue };
                if names.contains(&strip(&func.name)) {
                    continue;
                }
                let callers: BTreeSet<String> = cf.calls.iter().filter(|c| c.callee == func.name).map(|c| crate::rules::c03::fold_closures(&c.caller)).filter(|c| *c != func.name).collect();
                if callers.len() == 1 {
                    let g = callers.into_iter().next().unwrap();
                    // do not fold into something that is itself being folded in this round
                    if !map.contains_key(&g) {
                        map.insert(func.name.clone(), g);
                    }
                }
            }
            if map.is_empty() {
                break;
            }
            let fix = |n: &str| -> String {
                for (from, to) in &map {
                    if n == from {
                        return to.clone();
                    }
                    if n.starts_with(from.as_str()) && n[from.len()..].starts_with("::{closure#") {
                        return format!("{}{}", to, &n[from.len()..]);
                    }
                }
                n.to_string()
            };
            cf.funcs.retain(|x| !map.contains_key(&x.name));
            for x in cf.funcs.iter_mut() {
                x.name = fix(&x.name);
            }
            // the calls from the one caller are the splice points, not calls any more (a call of the helper to itself
            // stays and becomes a recursion of the caller)
            cf.calls.retain(|c| !(map.contains_key(&c.callee) && crate::rules::c03::fold_closures(&c.caller) != c.callee));
            for c in cf.calls.iter_mut() {
                c.caller = fix(&c.caller);
                c.callee = fix(&c.callee);
            }
            for a in cf.asserts.iter_mut() {
                a.func = fix(&a.func);
            }
            for v in cf.valuses.iter_mut() {
                v.func = fix(&v.func);
                v.producer = fix(&v.producer);
            }
            for b in cf.binops.iter_mut() {
                b.func = fix(&b.func);
            }
            for c in cf.casts.iter_mut() {
                c.0 = fix(&c.0);
            }
        }
    }
}

/// Thorough tier: the fact directories of the non-default feature configurations, as (label, facts).
/// `MIRFACTS_DIRS_EXTRA` = `label=dir;label=dir` is set by bin/check for the thorough tier.
pub fn extra_facts(cx: &mut Ctx, rule: &str) -> Vec<(String, Facts)> {
    let mut out = vec![];
    if cx.tier != "thorough" {
        return out;
    }
    let Ok(spec) = std::env::var("MIRFACTS_DIRS_EXTRA") else {
        cx.anchor_missing(rule, "MIRFACTS_DIRS_EXTRA (the thorough tier runs through bin/check, which produces the MIR facts of the feature configurations)");
        return out;
    };
    for part in spec.split(';').filter(|p| !p.is_empty()) {
        let Some((label, dir)) = part.split_once('=') else { continue };
        match crate::mir::load(std::path::Path::new(dir)).map(|f| undo_renames_in_facts(cx, f)) {
            Ok(f) => {
                cx.unit(&format!("MIR functions [{}]", label), f.crates.values().map(|c| c.funcs.len()).sum());
                out.push((label.to_string(), f));
            }
            Err(e) => cx.anchor_missing(rule, &format!("MIR facts for `{}`: {}", label, e)),
        }
    }
    out
}

fn is_generated_internal(caller: &str, file: &str) -> bool {
    file.ends_with("parser/src/python.rs") && !caller.contains("__action")
}

/// (caller, callee) -> count, for calls whose callee matches `pred`, outside the LALRPOP internals.
fn inventory(cf: &CrateFacts, pred: &dyn Fn(&str) -> bool) -> BTreeMap<(String, String), usize> {
    let mut m = BTreeMap::new();
    for c in &cf.calls {
        if is_generated_internal(&c.caller, &c.file) {
            continue;
        }
        if pred(&c.callee) {
            *m.entry((c.caller.clone(), short(&c.callee))).or_insert(0) += 1;
        }
    }
    m
}

fn short(callee: &str) -> String {
    callee.replace("rustpython_ast::text_size::size::", "").replace("rustpython_ast::text_size::", "").replace("rustpython_ast::", "").replace("std::ops::", "").replace("std::cmp::", "").replace("std::convert::", "").replace("std::default::", "")
}

/// U1/B1: no comparison or integer conversion of positions; literal / default positions only at tabled sites;
/// position arithmetic only at tabled sites.
pub fn position_comparisons(cx: &mut Ctx, rule: &str, facts: &Facts) {
    cx.rule(rule, "position-blindness over rustpython_parser (resolved MIR call edges, LALRPOP internals excluded): no comparison, ordering, containment test or integer conversion of a TextSize/TextRange occurs outside the derived PartialEq impls of the two error structs and the one conversion of a prefix LENGTH in lex_string — nothing in the lexer, string parser, grammar actions or entry points can branch on a position, so neither the start offset nor the layout-dependent offsets of tokens can influence acceptance or the tree");
    cx.floor(rule, 3);
    let Some(cf) = facts.krate("rustpython_parser") else { return cx.anchor_missing(rule, "MIR facts of rustpython_parser") };

    // (i) comparisons / conversions
    let cmp = inventory(cf, &|c| {
        let ts = c.contains("TextSize") || c.contains("TextRange");
        ts && (c.contains("PartialEq") || c.contains("PartialOrd") || c.contains("::Ord>") || c.contains("as std::cmp::Ord")
            || c.contains("for u32>::from") || c.contains("for usize>::from") || c.ends_with("::to_u32") || c.ends_with("::to_usize")
            || c.ends_with("TextRange::contains") || c.ends_with("TextRange::contains_inclusive") || c.ends_with("TextRange::contains_range")
            || c.ends_with("TextRange::is_empty") || c.ends_with("TextRange::len") || c.ends_with("TextRange::intersect") || c.ends_with("TextRange::ordering"))
    });
    let allowed_cmp: BTreeSet<(&str, &str)> = [
        ("<lexer::LexicalError as std::cmp::PartialEq>::eq", "<TextSize as PartialEq>::eq"),
        ("<string::FStringError as std::cmp::PartialEq>::eq", "<TextSize as PartialEq>::eq"),
        ("lexer::Lexer::<T>::lex_string", "<impl From<TextSize> for u32>::from"),
    ]
    .into_iter()
    .collect();
    for ((caller, callee), n) in &cmp {
        if allowed_cmp.contains(&(caller.as_str(), callee.as_str())) && *n == 1 {
            cx.ok(rule, &format!("{} -> {} (tabled: derived equality of an error value / conversion of a prefix length)", caller, callee));
        } else {
            cx.fail(rule, &format!("{}/position-compared/{}/{}", rule, caller, callee), "parser/src", &format!("{} calls {} ({}x): a position is compared or converted to an integer; the parser's behaviour could now depend on the start offset", caller, callee, n));
        }
    }
    for (caller, callee) in &allowed_cmp {
        if !cmp.contains_key(&(caller.to_string(), callee.to_string())) {
            cx.fail(rule, &format!("{}/table-stale/{}", rule, caller), "parser/src", &format!("tabled site {} -> {} no longer exists (review the table; fail closed)", caller, callee));
        }
    }
    // also raw integer comparisons on TextSize's inner u32 cannot happen outside the vendored crate (field is private)
}

#[derive(Debug, Clone, Copy, PartialEq, Eq, PartialOrd, Ord)]
enum Dim {
    P, // a position: start offset + consumed bytes
    L, // a length / constant
    U, // not known (field, parameter, dereference)
}

/// producers of lengths / constants, by resolved callee suffix
const L_BORN: &[&str] = &[
    "TextLen>::text_len",
    "StringKind::prefix_len",
    "TextSize::new",
    "<TextSize as From<u32>>::from",
    "<TextSize as Default>::default",
    "TextRange::len",
    "TextSize::of",
];
/// parameter slots that take a length
const L_SLOTS: &[(&str, usize)] = &[("TextRange::at", 1), ("<impl From<TextSize> for u32>::from", 0), ("<impl From<TextSize> for usize>::from", 0), ("TextSize::to_u32", 0), ("TextSize::to_usize", 0)];
/// the zero-offset convenience wrappers: (caller, callee suffix)
const ZERO_WRAPPERS: &[(&str, &str)] = &[("lexer::lex", "lex_starts_at"), ("parser::parse", "parse_starts_at"), ("parser::Parse::parse", "parse_starts_at")];

fn arith_kind(callee: &str) -> Option<&'static str> {
    if callee.starts_with("<TextSize as Add") && callee.ends_with("::add") {
        Some("add")
    } else if callee.starts_with("<TextSize as Sub") && callee.ends_with("::sub") {
        Some("sub")
    } else if callee.starts_with("<TextSize as AddAssign") {
        Some("add_assign")
    } else if callee.starts_with("<TextSize as SubAssign") {
        Some("sub_assign")
    } else {
        None
    }
}

/// Dimension discipline over the value-flow facts (VALUSE) of rustpython_parser: positions and lengths share the
/// type TextSize; every TextSize producer is classified as a position (P) or a length/constant (L) and every
/// arithmetic site and sink is checked for dimensional sense.
pub fn dimension_discipline(cx: &mut Ctx, rule: &str, facts: &Facts) {
    cx.rule(rule, "dimension discipline on TextSize (value flow inside each MIR body of rustpython_parser, LALRPOP internals excluded): every freshly produced TextSize is a position (get_pos, start/end of a range or node, the result of position ± length) or a length/constant (text_len, prefix_len, TextSize::new/from/default, len, the result of length ± length, position − position); (a) no site adds two positions, subtracts a position from a length, or += a position; (b) a length or constant never flows into a position sink (a struct/tuple field, a field store, a return value, a call argument) — its only consumers are the length operand of an arithmetic site, a length-typed parameter, an integer conversion, and the offset argument of the three zero-offset wrappers; (c) TextRange::default() is never used. Hence every position is `start offset + consumed bytes ± lengths`: shifting the start offset shifts every range and error offset and changes nothing else");
    cx.floor(rule, 20);
    let Some(cf) = facts.krate("rustpython_parser") else { return cx.anchor_missing(rule, "MIR facts of rustpython_parser") };
    let vals: Vec<&crate::mir::ValUse> = cf.valuses.iter().filter(|v| !is_generated_internal(&v.func, &v.file)).collect();
    if vals.is_empty() {
        return cx.anchor_missing(rule, "VALUSE facts (tools/mirfacts driver too old?)");
    }
    cx.unit("TextSize/TextRange producers", vals.len());
    // arithmetic sites: (func, loc) -> (kind, [dim of #0, dim of #1])
    let site_key = |func: &str, file: &str, line: usize, col: usize| format!("{}@{}:{}:{}", func, file, line, col);
    let mut result_dim: BTreeMap<String, Dim> = BTreeMap::new(); // arithmetic producer site -> dim
    let base_dim = |v: &crate::mir::ValUse, result_dim: &BTreeMap<String, Dim>| -> Dim {
        let p = short(&v.producer);
        if arith_kind(&p).is_some() {
            return result_dim.get(&site_key(&v.func, &v.file, v.line, v.col)).copied().unwrap_or(Dim::U);
        }
        if L_BORN.iter().any(|s| p.ends_with(s)) {
            Dim::L
        } else {
            Dim::P
        }
    };
    let mut operands: BTreeMap<String, (String, String, [Dim; 2])> = BTreeMap::new(); // site -> (func, kind, dims)
    for _round in 0..6 {
        operands.clear();
        for v in &vals {
            let d = base_dim(v, &result_dim);
            for u in &v.uses {
                let Some(rest) = u.strip_prefix("call:") else { continue };
                let Some((cs, at)) = rest.rsplit_once('@') else { continue };
                let Some((callee, ix)) = cs.rsplit_once('#') else { continue };
                let callee = short(callee);
                let Some(kind) = arith_kind(&callee) else { continue };
                let ix: usize = ix.parse().unwrap_or(9);
                if ix > 1 {
                    continue;
                }
                let e = operands.entry(format!("{}@{}", v.func, at)).or_insert((v.func.clone(), kind.to_string(), [Dim::U, Dim::U]));
                // several producers may reach one slot (branches): P dominates for #1 of add (worst case), keep max severity
                e.2[ix] = match (e.2[ix], d) {
                    (Dim::U, x) => x,
                    (x, Dim::U) => x,
                    (Dim::P, _) | (_, Dim::P) => Dim::P,
                    _ => Dim::L,
                };
            }
        }
        let mut changed = false;
        for (site, (_f, kind, dims)) in &operands {
            let r = match (kind.as_str(), dims[0], dims[1]) {
                ("add", Dim::L, Dim::L) => Dim::L,
                ("add", _, _) => Dim::P,
                ("sub", Dim::L, Dim::L) => Dim::L,
                ("sub", Dim::P, Dim::P) => Dim::L,
                ("sub", Dim::U, Dim::U) => Dim::U,
                ("sub", Dim::U, Dim::P) | ("sub", Dim::P, Dim::U) => Dim::U,
                ("sub", _, _) => Dim::P,
                _ => Dim::U,
            };
            if result_dim.get(site) != Some(&r) {
                result_dim.insert(site.clone(), r);
                changed = true;
            }
        }
        if !changed {
            break;
        }
    }
    // (a) arithmetic sites
    let mut per_func: BTreeMap<String, usize> = BTreeMap::new();
    for (_site, (func, kind, dims)) in &operands {
        let n = per_func.entry(format!("{}/{}", func, kind)).or_insert(0);
        *n += 1;
        let bad = match (kind.as_str(), dims[0], dims[1]) {
            ("add", Dim::P, Dim::P) => Some("adds two positions"),
            ("sub", Dim::L, Dim::P) => Some("subtracts a position from a length"),
            ("add_assign", _, Dim::P) | ("sub_assign", _, Dim::P) => Some("advances a position by a position"),
            _ => None,
        };
        match bad {
            None => cx.ok(rule, &format!("{}: {} of ({:?}, {:?})", func, kind, dims[0], dims[1])),
            Some(why) => cx.fail(rule, &format!("{}/arith/{}/{}#{}", rule, func, kind, n), "parser/src", &format!("{} {}: the result is not `start offset + consumed bytes` any more (operand dimensions {:?}, {:?})", func, why, dims[0], dims[1])),
        }
    }
    // (a') positions only advance: an in-place subtraction `p -= x` on a TextSize is accepted only where x is provably a
    // length in the same body (the reviewed tree has no such site at all); a subtrahend that comes from a capture, a
    // field or a parameter cannot be told from a position
    {
        let mut n_sub_assign = 0;
        for c in &cf.calls {
            if is_generated_internal(&c.caller, &c.file) || !short(&c.callee).contains("SubAssign") || !short(&c.callee).ends_with("sub_assign") || !c.substs.contains("TextSize") {
                continue;
            }
            n_sub_assign += 1;
            let site = format!("{}@{}:{}:{}", c.caller, c.file, c.line, c.col);
            let dim1 = operands.get(&site).map(|o| o.2[1]).unwrap_or(Dim::U);
            if dim1 == Dim::L {
                cx.ok(rule, &format!("{}: `-=` by a length", c.caller));
            } else {
                cx.fail(rule, &format!("{}/arith/{}/sub_assign-unproven#{}", rule, crate::rules::c03::fold_closures(&c.caller), n_sub_assign), &format!("{}:{}", c.file, c.line), &format!("{} subtracts in place (`-=`) a value that is not provably a length from a TextSize: a position minus a position is a length, and storing it back makes an offset that no longer moves with the start offset", c.caller));
            }
        }
        if n_sub_assign == 0 {
            cx.ok(rule, "no in-place subtraction on a TextSize in the parser crate: positions only advance");
        }
    }
    // (b), (c) sinks of lengths / constants
    let mut per_sink: BTreeMap<String, usize> = BTreeMap::new();
    for v in &vals {
        let p = short(&v.producer);
        let is_default_range = p.ends_with("<TextRange as Default>::default");
        let d = base_dim(v, &result_dim);
        if d != Dim::L && !is_default_range {
            continue;
        }
        let func_is_l_born = L_BORN.iter().any(|s| short(&v.func).ends_with(s.trim_start_matches('<')) || s.ends_with(&format!("::{}", v.func.rsplit("::").next().unwrap_or(""))));
        for u in &v.uses {
            let ok = if let Some(rest) = u.strip_prefix("call:") {
                let (cs, _) = rest.rsplit_once('@').unwrap_or((rest, ""));
                let (callee, ix) = cs.rsplit_once('#').unwrap_or((cs, "9"));
                let callee = short(callee);
                let ix: usize = ix.parse().unwrap_or(9);
                if is_default_range {
                    false
                } else if let Some(k) = arith_kind(&callee) {
                    ix == 1 || k == "add" || (k == "sub" && ix == 0) // L as #0 of sub: judged at the site (a)
                } else {
                    L_SLOTS.iter().any(|(c, i)| callee.ends_with(c) && *i == ix) || ZERO_WRAPPERS.iter().any(|(caller, c)| v.func == *caller && callee.ends_with(c) && p.ends_with("<TextSize as Default>::default"))
                }
            } else if u == "return" {
                func_is_l_born && !is_default_range
            } else if u == "other:ref" {
                !is_default_range
            } else {
                false
            };
            if ok {
                cx.ok(rule, &format!("{}: {} -> {}", v.func, p, u.split('@').next().unwrap_or(u)));
            } else {
                let sink = u.split('@').next().unwrap_or(u).to_string();
                let key = if v.func.contains("Stmt as parser::Parse>::parse_tokens") {
                    format!("{}/stmt-eof-offset", rule)
                } else if v.func == "parser::parse_filtered_tokens" && is_default_range {
                    format!("{}/marker-default-range", rule)
                } else {
                    let n = per_sink.entry(format!("{}/{}/{}", v.func, p, sink)).or_insert(0);
                    *n += 1;
                    format!("{}/constant-position/{}/{}/{}#{}", rule, v.func, p, sink, n)
                };
                cx.fail(rule, &key, "parser/src", &format!("{}: the {} produced by {} flows into `{}`: a position that ignores the start offset and the consumed text", v.func, if is_default_range { "default range" } else { "length/constant" }, p, sink));
            }
        }
    }
}

/// E2: every error offset is a position expression, never a literal.
pub fn error_offsets(cx: &mut Ctx, rule: &str) {
    cx.rule(rule, "error-offset provenance: every LexicalError { location }, LexicalError::new(_, loc), FStringError::new(_, loc) and ParseError { offset } constructed in the parser crate (lexer, string parser, argument validation, grammar actions, error mapping, typed entry points) takes a position expression — get_pos(), a variable assigned from it, an @L/@R capture, a node's start(), or the location carried by the wrapped error — never a literal or Default value");
    cx.floor(rule, 60);
    let files = ["parser/src/lexer.rs", "parser/src/string.rs", "parser/src/function.rs", "parser/src/parser.rs", "parser/src/gen/parse.rs"];
    for rel in files {
        let Ok(src) = sm::load(&cx.repo, rel) else {
            cx.anchor_missing(rule, rel);
            continue;
        };
        check_offsets_in_file(cx, rule, &src);
    }
    // grammar actions
    if let Ok(g) = crate::tables::load_grammar(&cx.repo) {
        for (d, a, e) in crate::rules::grammar_rules::actions(&g) {
            let mut sites = vec![];
            collect_offset_exprs(e, &mut sites);
            for (what, x) in sites {
                let t = sm::tsx(&x);
                let bindings: BTreeSet<String> = a.syms.iter().filter(|s| matches!(s.kind, crate::grammar::SymKind::Lookahead | crate::grammar::SymKind::Lookbehind)).filter_map(|s| s.binding.clone()).collect();
                let ok = bindings.contains(&t.text) || t.ends_with(".start()") || t.ends_with(".end()");
                if ok {
                    cx.ok(rule, &format!("{}: {} at `{}`", crate::rules::grammar_rules::alt_key(d, a), what, t));
                } else {
                    cx.fail(rule, &format!("{}/{}/{}", rule, crate::rules::grammar_rules::alt_key(d, a), what), &crate::rules::grammar_rules::lal(a), &format!("{} is located at `{}`, which is not a capture or a node position", what, t));
                }
            }
        }
    }
}

fn collect_offset_exprs(e: &syn::Expr, out: &mut Vec<(String, syn::Expr)>) {
    sm::for_each_expr(e, |x| match x {
        syn::Expr::Struct(s) => {
            let ty = s.path.segments.last().map(|p| p.ident.to_string()).unwrap_or_default();
            if ty == "LexicalError" || ty == "ParseError" || ty == "FStringError" {
                for fv in &s.fields {
                    let m = sm::ts(&fv.member);
                    if m == "location" || m == "offset" {
                        out.push((format!("{}.{}", ty, m), fv.expr.clone()));
                    }
                }
            }
        }
        syn::Expr::Call(c) => {
            let f = sm::tsc(&c.func);
            if (f == "LexicalError::new" || f == "FStringError::new") && c.args.len() == 2 {
                out.push((f, c.args[1].clone()));
            }
        }
        _ => {}
    });
}

fn check_offsets_in_file(cx: &mut Ctx, rule: &str, src: &Src) {
    // per function: local definitions to resolve one level
    let mut fns: Vec<(String, &syn::Block, Vec<String>)> = vec![];
    for f in src.all_free_fns() {
        fns.push((f.sig.ident.to_string(), &f.block, params(&f.sig)));
    }
    for i in src.impls() {
        for it in &i.items {
            if let syn::ImplItem::Fn(f) = it {
                fns.push((format!("{}::{}", sm::self_ty_name(i), f.sig.ident), &f.block, params(&f.sig)));
            }
        }
    }
    for it in &src.file.items {
        if let syn::Item::Trait(t) = it {
            for ti in &t.items {
                if let syn::TraitItem::Fn(f) = ti {
                    if let Some(b) = &f.default {
                        fns.push((format!("{}::{}", t.ident, f.sig.ident), b, params(&f.sig)));
                    }
                }
            }
        }
    }
    for (fname, block, ps) in fns {
        let mut sites = vec![];
        let wrapper = syn::Expr::Block(syn::ExprBlock { attrs: vec![], label: None, block: (*block).clone() });
        collect_offset_exprs(&wrapper, &mut sites);
        if sites.is_empty() {
            continue;
        }
        // locals assigned from get_pos() or from a position expression
        let mut pos_locals: BTreeSet<String> = BTreeSet::new();
        let mut local_defs: BTreeMap<String, String> = BTreeMap::new();
        struct V<'a> {
            defs: &'a mut BTreeMap<String, String>,
        }
        impl<'a, 'ast> syn::visit::Visit<'ast> for V<'a> {
            fn visit_local(&mut self, l: &'ast syn::Local) {
                if let Some(i) = &l.init {
                    let mut ids = vec![];
                    sm::pat_idents(&l.pat, &mut ids);
                    for id in ids {
                        self.defs.insert(id, sm::tsc(&i.expr));
                    }
                }
                syn::visit::visit_local(self, l);
            }
        }
        use syn::visit::Visit;
        V { defs: &mut local_defs }.visit_block(block);
        for (k, v) in &local_defs {
            if is_position_text(v, &ps, &BTreeSet::new()) {
                pos_locals.insert(k.clone());
            }
        }
        let mut n = 0;
        for (what, x) in sites {
            n += 1;
            let t = sm::tsx(&x);
            let ok = is_position_text(&t, &ps, &pos_locals);
            let literal = t.contains("default()") || t.contains("TextSize::from(") || t.contains("TextSize::new(") || t == "0.into()";
            let key = if fname == "Stmt::parse_tokens" && literal { format!("{}/stmt-eof-offset", rule) } else { format!("{}/{}/{}#{}", rule, fname, what, n) };
            if ok && !literal {
                cx.ok(rule, &format!("{}: {} at `{}`", fname, what, t));
            } else if literal {
                cx.fail(rule, &key, &src.rel, &format!("{}: {} is located at the constant `{}`: the reported offset ignores the start offset (and is wrong for any non-zero one)", fname, what, t));
            } else {
                cx.fail(rule, &key, &src.rel, &format!("{}: {} is located at `{}`, whose provenance is not a position the checker recognises", fname, what, t));
            }
        }
    }
}

fn params(sig: &syn::Signature) -> Vec<String> {
    sig.inputs
        .iter()
        .filter_map(|a| if let syn::FnArg::Typed(t) = a { let mut ids = vec![]; sm::pat_idents(&t.pat, &mut ids); ids.first().cloned() } else { None })
        .collect()
}

fn is_position_text(t: &str, params: &[String], pos_locals: &BTreeSet<String>) -> bool {
    t == "self.get_pos()"
        || t == "self.location"
        || t.ends_with(".start()")
        || t.ends_with(".end()")
        || t == "error.location"
        || t == "err.location"
        || t == "token.0"
        || t == "location" && (params.iter().any(|p| p == "location") || pos_locals.contains("location"))
        || t == "start" && (params.iter().any(|p| p == "start") || pos_locals.contains("start"))
        || t == "start_pos" && (params.iter().any(|p| p == "start_pos") || pos_locals.contains("start_pos"))
        || t == "values[0].0"
        || pos_locals.contains(t)
        || t == "start" && params.iter().any(|p| p == "func_args")  // parse_args: `(start, end, name)` is the argument's captured @L/@R pair
        || t == "location" && params.iter().any(|p| p == "err")     // parse_error_from_lalrpop: the variant's own location (C03.E1)
        || (t == "location" || t == "start" || t == "tok_pos" || t == "tok_start" || t == "initial_start" || t == "unicode_error") && pos_locals.contains(t)
}
