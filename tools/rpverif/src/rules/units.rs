//! Units discipline on positions (DESIGN §3.6): inventories over the MIR facts + syn-level provenance of error offsets.
//! Shared by C03 (E2), C08 (B1) and C09 (U1, U2).

use crate::mir::{CrateFacts, Facts};
use crate::report::Ctx;
use crate::srcmodel::{self as sm, Src};
use std::collections::{BTreeMap, BTreeSet};

pub fn load_facts(cx: &mut Ctx, rule: &str) -> Option<Facts> {
    let dir = match std::env::var("MIRFACTS_DIR") {
        Ok(d) => d,
        Err(_) => {
            cx.anchor_missing(rule, "MIRFACTS_DIR (run through bin/check, which produces the MIR facts)");
            return None;
        }
    };
    match crate::mir::load(std::path::Path::new(&dir)) {
        Ok(f) => {
            cx.trust("rustc nightly front end + tools/mirfacts driver (resolved callees, assert terminators)");
            let n: usize = f.crates.values().map(|c| c.funcs.len()).sum();
            let e: usize = f.crates.values().map(|c| c.calls.len()).sum();
            cx.unit("MIR functions", n);
            cx.unit("MIR call edges", e);
            Some(f)
        }
        Err(e) => {
            cx.anchor_missing(rule, &e);
            None
        }
    }
}

fn is_generated_internal(caller: &str, file: &str) -> bool {
    file.ends_with("parser/src/python.rs") && !caller.contains("__action")
}

/// (caller, callee) -> count, for calls whose callee matches `pred`, outside the LALRPOP internals.
fn inventory(cf: &CrateFacts, pred: &dyn Fn(&str) -> bool) -> BTreeMap<(String, String), usize> {
    let mut m = BTreeMap::new();
    for c in &cf.calls {
        if is_generated_internal(&c.caller, &c.file) {
            continue;
        }
        if pred(&c.callee) {
            *m.entry((c.caller.clone(), short(&c.callee))).or_insert(0) += 1;
        }
    }
    m
}

fn short(callee: &str) -> String {
    callee.replace("rustpython_ast::text_size::size::", "").replace("rustpython_ast::text_size::", "").replace("rustpython_ast::", "").replace("std::ops::", "").replace("std::cmp::", "").replace("std::convert::", "").replace("std::default::", "")
}

/// U1/B1: no comparison or integer conversion of positions; literal / default positions only at tabled sites;
/// position arithmetic only at tabled sites.
pub fn position_inventories(cx: &mut Ctx, rule: &str, facts: &Facts, include_literals: bool) {
    cx.rule(rule, "units discipline over rustpython_parser (resolved MIR call edges, LALRPOP internals excluded): (i) no comparison, ordering, containment or integer conversion of a TextSize/TextRange outside the derived PartialEq impls of the error structs and the one conversion of a prefix LENGTH in lex_string — nothing can branch on a position; (ii) TextSize/TextRange literals and Default values occur only at the tabled sites (byte lengths 1, the string content offset, the f-string re-basing length, indentation widths, and the three zero-offset convenience wrappers); (iii) position arithmetic (Add/Sub/AddAssign) occurs only at the tabled sites. Hence every position is `start offset + consumed bytes ± small constant`, i.e. shifting the start offset shifts every range and error offset and changes nothing else");
    cx.floor(rule, if include_literals { 16 } else { 9 });
    let Some(cf) = facts.krate("rustpython_parser") else { return cx.anchor_missing(rule, "MIR facts of rustpython_parser") };

    // (i) comparisons / conversions
    let cmp = inventory(cf, &|c| {
        let ts = c.contains("TextSize") || c.contains("TextRange");
        ts && (c.contains("PartialEq") || c.contains("PartialOrd") || c.contains("::Ord>") || c.contains("as std::cmp::Ord")
            || c.contains("for u32>::from") || c.contains("for usize>::from") || c.ends_with("::to_u32") || c.ends_with("::to_usize")
            || c.ends_with("TextRange::contains") || c.ends_with("TextRange::contains_inclusive") || c.ends_with("TextRange::contains_range")
            || c.ends_with("TextRange::is_empty") || c.ends_with("TextRange::len") || c.ends_with("TextRange::intersect") || c.ends_with("TextRange::ordering"))
    });
    let allowed_cmp: BTreeSet<(&str, &str)> = [
        ("<lexer::LexicalError as std::cmp::PartialEq>::eq", "<TextSize as PartialEq>::eq"),
        ("<string::FStringError as std::cmp::PartialEq>::eq", "<TextSize as PartialEq>::eq"),
        ("lexer::Lexer::<T>::lex_string", "<impl From<TextSize> for u32>::from"),
    ]
    .into_iter()
    .collect();
    for ((caller, callee), n) in &cmp {
        if allowed_cmp.contains(&(caller.as_str(), callee.as_str())) && *n == 1 {
            cx.ok(rule, &format!("{} -> {} (tabled: derived equality of an error value / conversion of a prefix length)", caller, callee));
        } else {
            cx.fail(rule, &format!("{}/position-compared/{}/{}", rule, caller, callee), "parser/src", &format!("{} calls {} ({}x): a position is compared or converted to an integer; the parser's behaviour could now depend on the start offset", caller, callee, n));
        }
    }
    for (caller, callee) in &allowed_cmp {
        if !cmp.contains_key(&(caller.to_string(), callee.to_string())) {
            cx.fail(rule, &format!("{}/table-stale/{}", rule, caller), "parser/src", &format!("tabled site {} -> {} no longer exists (review the table; fail closed)", caller, callee));
        }
    }
    // also raw integer comparisons on TextSize's inner u32 cannot happen outside the vendored crate (field is private)

    // (ii) literals / defaults
    let lits = inventory(cf, &|c| {
        c.contains("TextSize as std::default::Default") || c.contains("TextRange as std::default::Default") || c.contains("TextSize as std::convert::From<u32>") || c.ends_with("TextSize::new")
    });
    let allowed_lits: BTreeMap<(&str, &str), (usize, &str)> = [
        (("lexer::lex", "<TextSize as Default>::default"), (1, "zero-offset wrapper")),
        (("parser::Parse::parse", "<TextSize as Default>::default"), (1, "zero-offset wrapper")),
        (("parser::parse", "<TextSize as Default>::default"), (1, "zero-offset wrapper")),
        (("lexer::Lexer::<T>::next_char", "<TextSize as From<u32>>::from"), (2, "byte length 1 of CR / LF")),
        (("string::StringParser::<'a>::new", "<TextSize as From<u32>>::from"), (2, "length of the opening quote(s)")),
        (("string::parse_fstring_expr", "<TextSize as From<u32>>::from"), (1, "length of the `(` prefix")),
        (("lexer::Lexer::<T>::handle_indentations", "TextSize::new"), (2, "indentation widths (spaces, tabs)")),
    ]
    .into_iter()
    .collect();
    for ((caller, callee), n) in lits.iter().filter(|_| include_literals) {
        match allowed_lits.get(&(caller.as_str(), callee.as_str())) {
            Some((want, why)) if want == n => cx.ok(rule, &format!("{} -> {} x{} ({})", caller, callee, n, why)),
            Some((want, _)) => cx.fail(rule, &format!("{}/literal-count/{}/{}", rule, caller, callee), "parser/src", &format!("{} has {} {} sites, {} are tabled", caller, n, callee, want)),
            None => {
                // the two known deviants get stable keys
                let key = if caller.contains("Stmt as parser::Parse>::parse_tokens") {
                    format!("{}/stmt-eof-offset", rule)
                } else if caller == "parser::parse_filtered_tokens" {
                    format!("{}/marker-default-range", rule)
                } else {
                    format!("{}/literal-position/{}/{}", rule, caller, callee)
                };
                cx.fail(rule, &key, "parser/src", &format!("{} builds a position from a constant ({}): an offset or range that ignores the start offset", caller, callee));
            }
        }
    }
    for ((caller, callee), (want, _)) in allowed_lits.iter().filter(|_| include_literals) {
        if !lits.contains_key(&(caller.to_string(), callee.to_string())) {
            cx.fail(rule, &format!("{}/table-stale/{}/{}", rule, caller, callee), "parser/src", &format!("tabled site {} -> {} x{} no longer exists (review the table; fail closed)", caller, callee, want));
        }
    }

    // (iii) arithmetic
    let arith = inventory(cf, &|c| c.contains("TextSize as std::ops::") || c.contains("TextRange as std::ops::"));
    let allowed_arith: BTreeMap<(&str, &str), usize> = [
        (("lexer::Lexer::<T>::new", "<TextSize as AddAssign<A>>::add_assign"), 1),
        (("lexer::Lexer::<T>::next_char", "<TextSize as AddAssign<A>>::add_assign"), 3),
        (("string::StringParser::<'a>::next_char", "<TextSize as AddAssign<A>>::add_assign"), 1),
        (("lexer::Lexer::<T>::handle_indentations", "<TextSize as Sub>::sub"), 2),
        (("string::parse_fstring_expr", "<TextSize as Sub>::sub"), 1),
        (("string::StringParser::<'a>::new", "<TextSize as Add>::add"), 2),
    ]
    .into_iter()
    .collect();
    for ((caller, callee), n) in &arith {
        match allowed_arith.get(&(caller.as_str(), callee.as_str())) {
            Some(want) if want == n => cx.ok(rule, &format!("{} -> {} x{} (tabled position arithmetic)", caller, callee, n)),
            _ => cx.fail(rule, &format!("{}/arithmetic/{}/{}", rule, caller, callee), "parser/src", &format!("{} performs position arithmetic {} x{} that is not in the reviewed table", caller, callee, n)),
        }
    }
    for ((caller, callee), want) in &allowed_arith {
        if !arith.contains_key(&(caller.to_string(), callee.to_string())) {
            cx.fail(rule, &format!("{}/table-stale/{}/{}", rule, caller, callee), "parser/src", &format!("tabled arithmetic site {} -> {} x{} no longer exists (fail closed)", caller, callee, want));
        }
    }
}

/// E2: every error offset is a position expression, never a literal.
pub fn error_offsets(cx: &mut Ctx, rule: &str) {
    cx.rule(rule, "error-offset provenance: every LexicalError { location }, LexicalError::new(_, loc), FStringError::new(_, loc) and ParseError { offset } constructed in the parser crate (lexer, string parser, argument validation, grammar actions, error mapping, typed entry points) takes a position expression — get_pos(), a variable assigned from it, an @L/@R capture, a node's start(), or the location carried by the wrapped error — never a literal or Default value");
    cx.floor(rule, 60);
    let files = ["parser/src/lexer.rs", "parser/src/string.rs", "parser/src/function.rs", "parser/src/parser.rs", "parser/src/gen/parse.rs"];
    for rel in files {
        let Ok(src) = sm::load(&cx.repo, rel) else {
            cx.anchor_missing(rule, rel);
            continue;
        };
        check_offsets_in_file(cx, rule, &src);
    }
    // grammar actions
    if let Ok(g) = crate::tables::load_grammar(&cx.repo) {
        for (d, a, e) in crate::rules::grammar_rules::actions(&g) {
            let mut sites = vec![];
            collect_offset_exprs(e, &mut sites);
            for (what, x) in sites {
                let t = sm::tsx(&x);
                let bindings: BTreeSet<String> = a.syms.iter().filter(|s| matches!(s.kind, crate::grammar::SymKind::Lookahead | crate::grammar::SymKind::Lookbehind)).filter_map(|s| s.binding.clone()).collect();
                let ok = bindings.contains(&t.text) || t.ends_with(".start()") || t.ends_with(".end()");
                if ok {
                    cx.ok(rule, &format!("{}: {} at `{}`", crate::rules::grammar_rules::alt_key(d, a), what, t));
                } else {
                    cx.fail(rule, &format!("{}/{}/{}", rule, crate::rules::grammar_rules::alt_key(d, a), what), &crate::rules::grammar_rules::lal(a), &format!("{} is located at `{}`, which is not a capture or a node position", what, t));
                }
            }
        }
    }
}

fn collect_offset_exprs(e: &syn::Expr, out: &mut Vec<(String, syn::Expr)>) {
    sm::for_each_expr(e, |x| match x {
        syn::Expr::Struct(s) => {
            let ty = s.path.segments.last().map(|p| p.ident.to_string()).unwrap_or_default();
            if ty == "LexicalError" || ty == "ParseError" || ty == "FStringError" {
                for fv in &s.fields {
                    let m = sm::ts(&fv.member);
                    if m == "location" || m == "offset" {
                        out.push((format!("{}.{}", ty, m), fv.expr.clone()));
                    }
                }
            }
        }
        syn::Expr::Call(c) => {
            let f = sm::tsc(&c.func);
            if (f == "LexicalError::new" || f == "FStringError::new") && c.args.len() == 2 {
                out.push((f, c.args[1].clone()));
            }
        }
        _ => {}
    });
}

fn check_offsets_in_file(cx: &mut Ctx, rule: &str, src: &Src) {
    // per function: local definitions to resolve one level
    let mut fns: Vec<(String, &syn::Block, Vec<String>)> = vec![];
    for f in src.all_free_fns() {
        fns.push((f.sig.ident.to_string(), &f.block, params(&f.sig)));
    }
    for i in src.impls() {
        for it in &i.items {
            if let syn::ImplItem::Fn(f) = it {
                fns.push((format!("{}::{}", sm::self_ty_name(i), f.sig.ident), &f.block, params(&f.sig)));
            }
        }
    }
    for it in &src.file.items {
        if let syn::Item::Trait(t) = it {
            for ti in &t.items {
                if let syn::TraitItem::Fn(f) = ti {
                    if let Some(b) = &f.default {
                        fns.push((format!("{}::{}", t.ident, f.sig.ident), b, params(&f.sig)));
                    }
                }
            }
        }
    }
    for (fname, block, ps) in fns {
        let mut sites = vec![];
        let wrapper = syn::Expr::Block(syn::ExprBlock { attrs: vec![], label: None, block: (*block).clone() });
        collect_offset_exprs(&wrapper, &mut sites);
        if sites.is_empty() {
            continue;
        }
        // locals assigned from get_pos() or from a position expression
        let mut pos_locals: BTreeSet<String> = BTreeSet::new();
        let mut local_defs: BTreeMap<String, String> = BTreeMap::new();
        struct V<'a> {
            defs: &'a mut BTreeMap<String, String>,
        }
        impl<'a, 'ast> syn::visit::Visit<'ast> for V<'a> {
            fn visit_local(&mut self, l: &'ast syn::Local) {
                if let Some(i) = &l.init {
                    let mut ids = vec![];
                    sm::pat_idents(&l.pat, &mut ids);
                    for id in ids {
                        self.defs.insert(id, sm::tsc(&i.expr));
                    }
                }
                syn::visit::visit_local(self, l);
            }
        }
        use syn::visit::Visit;
        V { defs: &mut local_defs }.visit_block(block);
        for (k, v) in &local_defs {
            if is_position_text(v, &ps, &BTreeSet::new()) {
                pos_locals.insert(k.clone());
            }
        }
        let mut n = 0;
        for (what, x) in sites {
            n += 1;
            let t = sm::tsx(&x);
            let ok = is_position_text(&t, &ps, &pos_locals);
            let literal = t.contains("default()") || t.contains("TextSize::from(") || t.contains("TextSize::new(") || t == "0.into()";
            let key = if fname == "Stmt::parse_tokens" && literal { format!("{}/stmt-eof-offset", rule) } else { format!("{}/{}/{}#{}", rule, fname, what, n) };
            if ok && !literal {
                cx.ok(rule, &format!("{}: {} at `{}`", fname, what, t));
            } else if literal {
                cx.fail(rule, &key, &src.rel, &format!("{}: {} is located at the constant `{}`: the reported offset ignores the start offset (and is wrong for any non-zero one)", fname, what, t));
            } else {
                cx.fail(rule, &key, &src.rel, &format!("{}: {} is located at `{}`, whose provenance is not a position the checker recognises", fname, what, t));
            }
        }
    }
}

fn params(sig: &syn::Signature) -> Vec<String> {
    sig.inputs
        .iter()
        .filter_map(|a| if let syn::FnArg::Typed(t) = a { let mut ids = vec![]; sm::pat_idents(&t.pat, &mut ids); ids.first().cloned() } else { None })
        .collect()
}

fn is_position_text(t: &str, params: &[String], pos_locals: &BTreeSet<String>) -> bool {
    t == "self.get_pos()"
        || t == "self.location"
        || t.ends_with(".start()")
        || t.ends_with(".end()")
        || t == "error.location"
        || t == "err.location"
        || t == "token.0"
        || t == "location" && (params.iter().any(|p| p == "location") || pos_locals.contains("location"))
        || t == "start" && (params.iter().any(|p| p == "start") || pos_locals.contains("start"))
        || t == "start_pos" && (params.iter().any(|p| p == "start_pos") || pos_locals.contains("start_pos"))
        || t == "values[0].0"
        || pos_locals.contains(t)
        || t == "start" && params.iter().any(|p| p == "func_args")  // parse_args: `(start, end, name)` is the argument's captured @L/@R pair
        || t == "location" && params.iter().any(|p| p == "err")     // parse_error_from_lalrpop: the variant's own location (C03.E1)
        || (t == "location" || t == "start" || t == "tok_pos" || t == "tok_start" || t == "initial_start" || t == "unicode_error") && pos_locals.contains(t)
}
