//! C10 — feature choices do not change what is parsed: cfg confinement, twins, filter dominance.

use crate::report::Ctx;
use crate::rules::c02::workspace_rs_files;
use crate::srcmodel::{self as sm, Src};
use crate::tables;
use std::collections::{BTreeMap, BTreeSet};

pub fn run(cx: &mut Ctx) {
    crate::g1::run(cx, "C10.G1");
    cfg_inventory(cx);
    full_lexer_confinement(cx, "C10.F1");
    filter_dominance(cx);
    kind_set_agreement(cx);
    ranges_feature(cx);
    bigint_alias(cx);
    unfinished_paths(cx);
    if cx.tier == "thorough" {
        crate::rules::matrix::feature_matrix(cx, "C10.M1");
    }
}

const PARSE_FEATURES: [&str; 4] = ["full-lexer", "all-nodes-with-ranges", "malachite-bigint", "num-bigint"];

struct CfgSite {
    file: String,
    line: usize,
    features: Vec<(String, bool)>,
    what: String,
}

fn collect_cfg_sites(src: &Src) -> Vec<CfgSite> {
    struct V<'a> {
        rel: &'a str,
        out: Vec<CfgSite>,
    }
    impl<'a> V<'a> {
        fn attrs(&mut self, attrs: &[syn::Attribute], what: String) {
            for a in attrs {
                if a.path().is_ident("cfg") || a.path().is_ident("cfg_attr") {
                    let mut f = vec![];
                    sm::collect_features(&sm::tsc(&a.meta), &mut f);
                    if !f.is_empty() {
                        self.out.push(CfgSite { file: self.rel.to_string(), line: sm::line(a.pound_token.span), features: f, what: what.clone() });
                    }
                }
            }
        }
    }
    impl<'a, 'ast> syn::visit::Visit<'ast> for V<'a> {
        fn visit_item(&mut self, i: &'ast syn::Item) {
            let (attrs, what): (&[syn::Attribute], String) = match i {
                syn::Item::Fn(f) => (&f.attrs, format!("fn {}", f.sig.ident)),
                syn::Item::Mod(m) => (&m.attrs, format!("mod {}", m.ident)),
                syn::Item::Impl(m) => (&m.attrs, format!("impl {} for {}", sm::trait_name(m).unwrap_or_default(), sm::self_ty_name(m))),
                syn::Item::Use(m) => (&m.attrs, format!("use {}", sm::tsc(&m.tree))),
                syn::Item::Type(m) => (&m.attrs, format!("type {}", m.ident)),
                syn::Item::Struct(m) => (&m.attrs, format!("struct {}", m.ident)),
                syn::Item::Enum(m) => (&m.attrs, format!("enum {}", m.ident)),
                syn::Item::Const(m) => (&m.attrs, format!("const {}", m.ident)),
                syn::Item::Static(m) => (&m.attrs, format!("static {}", m.ident)),
                syn::Item::Macro(m) => (&m.attrs, "macro".to_string()),
                syn::Item::Trait(m) => (&m.attrs, format!("trait {}", m.ident)),
                _ => (&[], String::new()),
            };
            self.attrs(attrs, what);
            syn::visit::visit_item(self, i);
        }
        fn visit_impl_item_fn(&mut self, f: &'ast syn::ImplItemFn) {
            self.attrs(&f.attrs, format!("method {}", f.sig.ident));
            syn::visit::visit_impl_item_fn(self, f);
        }
        fn visit_trait_item_fn(&mut self, f: &'ast syn::TraitItemFn) {
            self.attrs(&f.attrs, format!("trait method {}", f.sig.ident));
            syn::visit::visit_trait_item_fn(self, f);
        }
        fn visit_variant(&mut self, v: &'ast syn::Variant) {
            self.attrs(&v.attrs, format!("variant {}", v.ident));
            syn::visit::visit_variant(self, v);
        }
        fn visit_arm(&mut self, a: &'ast syn::Arm) {
            self.attrs(&a.attrs, format!("arm {}", sm::tsc(&a.pat)));
            syn::visit::visit_arm(self, a);
        }
        fn visit_local(&mut self, l: &'ast syn::Local) {
            self.attrs(&l.attrs, format!("stmt {}", sm::tsc_no_attrs_local(l)));
            syn::visit::visit_local(self, l);
        }
        fn visit_stmt(&mut self, s: &'ast syn::Stmt) {
            if let syn::Stmt::Expr(e, _) = s {
                let attrs: &[syn::Attribute] = match e {
                    syn::Expr::MethodCall(m) => &m.attrs,
                    syn::Expr::If(m) => &m.attrs,
                    syn::Expr::Call(m) => &m.attrs,
                    syn::Expr::Block(m) => &m.attrs,
                    syn::Expr::Assign(m) => &m.attrs,
                    syn::Expr::Macro(m) => &m.attrs,
                    syn::Expr::Return(m) => &m.attrs,
                    syn::Expr::Match(m) => &m.attrs,
                    _ => &[],
                };
                let mut bare = e.clone();
                match &mut bare {
                    syn::Expr::MethodCall(m) => m.attrs.clear(),
                    syn::Expr::If(m) => m.attrs.clear(),
                    syn::Expr::Call(m) => m.attrs.clear(),
                    syn::Expr::Block(m) => m.attrs.clear(),
                    syn::Expr::Assign(m) => m.attrs.clear(),
                    syn::Expr::Macro(m) => m.attrs.clear(),
                    syn::Expr::Return(m) => m.attrs.clear(),
                    syn::Expr::Match(m) => m.attrs.clear(),
                    _ => {}
                }
                self.attrs(attrs, format!("stmt {}", sm::tsc(&bare)));
            }
            syn::visit::visit_stmt(self, s);
        }
        fn visit_field(&mut self, f: &'ast syn::Field) {
            self.attrs(&f.attrs, format!("field {}", f.ident.as_ref().map(|i| i.to_string()).unwrap_or_default()));
            syn::visit::visit_field(self, f);
        }
        fn visit_expr_macro(&mut self, m: &'ast syn::ExprMacro) {
            if m.mac.path.is_ident("cfg") {
                let mut f = vec![];
                let t: String = m.mac.tokens.to_string().chars().filter(|c| !c.is_whitespace()).collect();
                sm::collect_features(&t, &mut f);
                if !f.is_empty() {
                    self.out.push(CfgSite { file: self.rel.to_string(), line: sm::line(m.mac.path.segments[0].ident.span()), features: f, what: "cfg!() expression".into() });
                }
            }
            syn::visit::visit_expr_macro(self, m);
        }
    }
    use syn::visit::Visit;
    let mut v = V { rel: &src.rel, out: vec![] };
    v.visit_file(&src.file);
    v.out
}

fn cfg_inventory(cx: &mut Ctx) {
    let rule = "C10.I1";
    cx.rule(rule, "every cfg/cfg!/cfg_attr site that names a parse-affecting feature (full-lexer, all-nodes-with-ranges, the big-integer backends) is classified: full-lexer only in parser/src/{lexer,token,soft_keywords,parser}.rs, all-nodes-with-ranges only in the ast crate's range plumbing (generic.rs alias/From/from_arg, gen/fold.rs, gen/ranged.rs, gen/located.rs) and nowhere in parser/src, the backends only at the two alias sites; a site anywhere else is unclassified and reported");
    cx.floor(rule, 75);
    let allowed: BTreeMap<&str, Vec<&str>> = [
        ("full-lexer", vec!["parser/src/lexer.rs", "parser/src/token.rs", "parser/src/soft_keywords.rs", "parser/src/parser.rs"]),
        ("all-nodes-with-ranges", vec!["ast/src/generic.rs", "ast/src/gen/fold.rs", "ast/src/gen/ranged.rs", "ast/src/gen/located.rs"]),
        ("malachite-bigint", vec!["ast/src/lib.rs", "format/src/bigint.rs"]),
        ("num-bigint", vec!["ast/src/lib.rs", "format/src/bigint.rs"]),
    ]
    .into_iter()
    .collect();
    let mut per: BTreeMap<(String, String), usize> = BTreeMap::new();
    let mut files = 0;
    for rel in workspace_rs_files(&cx.repo) {
        if rel.ends_with("parser/src/python.rs") {
            continue;
        }
        let Ok(src) = sm::load(&cx.repo, &rel) else {
            cx.fail(rule, &format!("{}/unparsable/{}", rule, rel), &rel, "file does not parse");
            continue;
        };
        files += 1;
        for site in collect_cfg_sites(&src) {
            for (feat, _) in &site.features {
                if !PARSE_FEATURES.contains(&feat.as_str()) {
                    continue;
                }
                *per.entry((site.file.clone(), feat.clone())).or_insert(0) += 1;
                if allowed.get(feat.as_str()).map_or(false, |v| v.contains(&site.file.as_str())) {
                    cx.ok_trivial(rule);
                } else {
                    cx.fail(rule, &format!("{}/unclassified/{}/{}", rule, site.file, feat), &format!("{}:{}", site.file, site.line), &format!("`{}` gates `{}` outside the files where this feature is confined", feat, site.what.chars().take(80).collect::<String>()));
                }
            }
        }
    }
    // the grammar: the generated parser is excluded above because it is the grammar's image (G1); the grammar itself
    // must not switch on a parse-affecting feature anywhere (actions, preamble)
    match std::fs::read_to_string(cx.repo.join("parser/src/python.lalrpop")) {
        Ok(text) => {
            let re = regex::Regex::new(r#"cfg(?:_attr)?!?\s*\([^)]*feature\s*=\s*"([a-z-]+)""#).unwrap();
            let mut n = 0;
            for (i, line) in text.lines().enumerate() {
                for c in re.captures_iter(line) {
                    if PARSE_FEATURES.contains(&&c[1]) {
                        n += 1;
                        cx.fail(rule, &format!("{}/unclassified/parser/src/python.lalrpop/{}", rule, &c[1]), &format!("parser/src/python.lalrpop:{}", i + 1), &format!("the grammar switches on the feature `{}`: what is parsed (tree or mandatory ranges) can then differ between feature configurations", &c[1]));
                    }
                }
            }
            if n == 0 {
                cx.ok(rule, "parser/src/python.lalrpop: no cfg on a parse-affecting feature");
            }
        }
        Err(e) => cx.anchor_missing(rule, &format!("parser/src/python.lalrpop: {}", e)),
    }
    cx.unit("source files scanned for cfg sites", files);
    for ((file, feat), n) in &per {
        cx.ok(rule, &format!("{}: {} `{}` site(s)", file, n, feat));
    }
}

/// F1: statements/items gated by full-lexer only read positions and emit the two trivia kinds;
/// the gated/un-gated twins have the same consumption skeleton.
pub fn full_lexer_confinement(cx: &mut Ctx, rule: &str) {
    cx.rule(rule, "code gated by full-lexer in the lexer is confined to position reads (let x = self.get_pos()) and emits of Tok::Comment / Tok::NonLogicalNewline; the feature twins lex_comment / lex_and_emit_comment consume exactly the same characters (same loop, same stop set, same next_char calls), so the feature cannot move the lexer's state");
    cx.floor(rule, 8);
    let lx = match sm::load(&cx.repo, "parser/src/lexer.rs") {
        Ok(s) => s,
        Err(e) => return cx.anchor_missing(rule, &e),
    };
    let sites = collect_cfg_sites(&lx);
    let mut twin_fns: BTreeMap<String, Vec<(bool, &syn::ImplItemFn)>> = BTreeMap::new();
    for (f, cfg) in crate::rules::lexer_rules::lexer_methods(&lx) {
        if let Some((_, pos)) = cfg.iter().find(|(n, _)| n == "full-lexer") {
            twin_fns.entry(f.sig.ident.to_string()).or_default().push((*pos, f));
        }
    }
    for s in &sites {
        if !s.features.iter().any(|(f, _)| f == "full-lexer") {
            continue;
        }
        let key = format!("{}/{}", rule, s.what.chars().take(60).collect::<String>());
        if s.what.starts_with("method ") {
            let name = s.what.trim_start_matches("method ");
            if name == "lex_comment" || name == "lex_and_emit_comment" {
                cx.ok_trivial(rule);
            } else {
                cx.fail(rule, &key, &format!("{}:{}", s.file, s.line), &format!("method `{}` exists only in one lexer configuration", name));
            }
        } else if s.what.starts_with("stmt ") {
            let t = s.what.trim_start_matches("stmt ");
            let ok = t == "lettok_start=self.get_pos();"
                || t == "lettok_end=self.get_pos();"
                || t == "self.emit((Tok::NonLogicalNewline,TextRange::new(tok_start,tok_end)))"
                || t == "lettok_start=self.get_pos()"
                || t == "lettok_end=self.get_pos()";
            if ok {
                cx.ok(rule, &format!("gated statement `{}` only reads a position / emits a trivia token", t));
            } else {
                cx.fail(rule, &key, &format!("{}:{}", s.file, s.line), &format!("statement `{}` is compiled only with full-lexer and is not a position read or a trivia emit: the feature would change the lexer's behaviour", t));
            }
        } else {
            cx.fail(rule, &key, &format!("{}:{}", s.file, s.line), &format!("full-lexer gates `{}` in the lexer", s.what));
        }
    }
    // twins
    for name in ["lex_comment", "lex_and_emit_comment"] {
        match twin_fns.get(name) {
            Some(v) if v.len() == 2 && v.iter().any(|x| x.0) && v.iter().any(|x| !x.0) => {
                let on = v.iter().find(|x| x.0).unwrap().1;
                let off = v.iter().find(|x| !x.0).unwrap().1;
                let (a, b) = (consumption_skeleton(&on.block), consumption_skeleton(&off.block));
                if a == b {
                    cx.ok(rule, &format!("{} twins share the consumption skeleton `{}`", name, a));
                } else {
                    cx.fail(rule, &format!("{}/twins/{}", rule, name), &lx.loc(on), &format!("the full-lexer and default versions of {} consume differently: `{}` vs `{}`", name, a, b));
                }
            }
            _ => cx.fail(rule, &format!("{}/twins/{}/missing", rule, name), &lx.rel, &format!("{} does not exist as a full-lexer / not-full-lexer pair", name)),
        }
    }
}

/// Sequence of control structure + window tests + consuming calls, ignoring everything else.
fn consumption_skeleton(b: &syn::Block) -> String {
    fn expr(e: &syn::Expr, out: &mut String) {
        match e {
            syn::Expr::Loop(l) => {
                out.push_str("loop{");
                block(&l.body, out);
                out.push('}');
            }
            syn::Expr::While(w) => {
                out.push_str(&format!("while({}){{", sm::tsc(&w.cond)));
                block(&w.body, out);
                out.push('}');
            }
            syn::Expr::Match(m) => {
                out.push_str(&format!("match({}){{", sm::tsc(&m.expr)));
                for a in &m.arms {
                    out.push_str(&sm::tsc(&a.pat));
                    out.push_str("=>{");
                    expr(&a.body, out);
                    out.push('}');
                }
                out.push('}');
            }
            syn::Expr::If(i) => {
                out.push_str(&format!("if({}){{", sm::tsc(&i.cond)));
                block(&i.then_branch, out);
                out.push('}');
                if let Some((_, el)) = &i.else_branch {
                    out.push_str("else{");
                    expr(el, out);
                    out.push('}');
                }
            }
            syn::Expr::Block(b) => block(&b.block, out),
            syn::Expr::Return(_) => out.push_str("return;"),
            syn::Expr::Break(_) => out.push_str("break;"),
            other => {
                // consuming calls anywhere inside
                let t = sm::tsx(other);
                for c in ["self.next_char()", "self.lex_comment()", "self.window.slide()"] {
                    for _ in 0..t.matches(c).count() {
                        out.push_str(c);
                        out.push(';');
                    }
                }
            }
        }
    }
    fn block(b: &syn::Block, out: &mut String) {
        for s in &b.stmts {
            match s {
                syn::Stmt::Expr(e, _) => expr(e, out),
                syn::Stmt::Local(l) => {
                    if let Some(i) = &l.init {
                        expr(&i.expr, out)
                    }
                }
                _ => {}
            }
        }
    }
    let mut s = String::new();
    block(b, &mut s);
    s
}

fn filter_kinds(t: &str) -> Option<BTreeSet<String>> {
    // `lxr.filter_ok(|(tok,_)|!matches!(tok,Tok::Comment{..}|Tok::NonLogicalNewline))`
    let p = t.find("filter_ok(|(tok,_)|!matches!(tok,")?;
    let rest = &t[p + "filter_ok(|(tok,_)|!matches!(tok,".len()..];
    let end = rest.find("))")?;
    Some(rest[..end].split('|').map(|k| k.trim_start_matches("Tok::").trim_end_matches("{..}").trim_end_matches("(..)").trim_end_matches("(_)").to_string()).collect())
}

pub fn filter_dominance_pub(cx: &mut Ctx, rule: &str) {
    filter_dominance_named(cx, rule)
}

fn filter_dominance(cx: &mut Ctx) {
    filter_dominance_named(cx, "C10.F2")
}

fn filter_dominance_named(cx: &mut Ctx, rule: &str) {
    cx.rule(rule, "with full-lexer on, every path from a token source to TopParser::parse passes a filter that removes exactly the feature-gated token kinds: the filter sits in parse_filtered_tokens before the parser is invoked, and TopParser is invoked from nowhere else");
    cx.floor(rule, 3);
    let p = match sm::load(&cx.repo, "parser/src/parser.rs") {
        Ok(s) => s,
        Err(e) => return cx.anchor_missing(rule, &e),
    };
    let Some(f) = p.free_fns("parse_filtered_tokens").into_iter().next() else { return cx.anchor_missing(rule, "parse_filtered_tokens") };
    // the gated statement
    let mut gated_filter: Option<(usize, String)> = None;
    let mut parse_at: Option<usize> = None;
    for (i, s) in f.block.stmts.iter().enumerate() {
        let t = sm::tsx(s);
        if let syn::Stmt::Local(l) = s {
            let gated = sm::cfg_features(&l.attrs).iter().any(|(n, p)| n == "full-lexer" && *p);
            if gated && t.contains("filter_ok(") {
                gated_filter = Some((i, sm::tsc_no_attrs_local(l)));
            }
        }
        if t.contains("python::TopParser::new().parse(") {
            parse_at = Some(i);
        }
    }
    match (&gated_filter, parse_at) {
        (Some((i, t)), Some(j)) if *i < j => {
            let kinds = filter_kinds(t);
            let want: BTreeSet<String> = ["Comment", "NonLogicalNewline"].iter().map(|s| s.to_string()).collect();
            let rebinds = t.starts_with("letlxr=lxr");
            if kinds.as_ref() == Some(&want) && rebinds {
                cx.ok(rule, "parse_filtered_tokens: #[cfg(full-lexer)] let lxr = lxr.filter_ok(!Comment|NonLogicalNewline) precedes TopParser::parse");
            } else {
                cx.fail(rule, &format!("{}/filter-kinds", rule), &p.loc(f), &format!("the full-lexer filter removes {:?} (expected Comment, NonLogicalNewline) or does not rebind `lxr`", kinds));
            }
        }
        _ => cx.fail(rule, &format!("{}/trait-parse-tokens-unfiltered", rule), &p.loc(f), "parse_filtered_tokens has no #[cfg(feature = \"full-lexer\")] filter before TopParser::parse: Parse::parse_tokens (public) hands Comment/NonLogicalNewline tokens to the parser under full-lexer"),
    }
    // the filtered stream is what is parsed: chain(lxr) after filter
    let t = sm::tsx(&f.block);
    if t.contains("letlexer=iter::once(Ok(marker_token)).chain(lxr);") {
        cx.ok(rule, "the (filtered) `lxr` is chained after the start marker and parsed");
    } else {
        cx.fail(rule, &format!("{}/chain", rule), &p.loc(f), "the parsed stream is not once(marker).chain(lxr)");
    }
    // who calls TopParser
    let mut callers = vec![];
    for rel in workspace_rs_files(&cx.repo) {
        if !rel.starts_with("parser/src/") || rel.ends_with("python.rs") {
            continue;
        }
        let Ok(src) = sm::load(&cx.repo, &rel) else { continue };
        for ff in src.all_free_fns() {
            if sm::tsx(&ff.block).contains("TopParser::new()") {
                callers.push(format!("{}::{}", rel, ff.sig.ident));
            }
        }
        for i in src.impls() {
            for it in &i.items {
                if let syn::ImplItem::Fn(m) = it {
                    if sm::tsx(&m.block).contains("TopParser::new()") {
                        callers.push(format!("{}::{}::{}", rel, sm::self_ty_name(i), m.sig.ident));
                    }
                }
            }
        }
    }
    if callers == vec!["parser/src/parser.rs::parse_filtered_tokens".to_string()] {
        cx.ok(rule, "TopParser is invoked only from parse_filtered_tokens");
    } else {
        cx.fail(rule, &format!("{}/topparser-callers", rule), "parser/src", &format!("TopParser::new() is called from {:?}", callers));
    }
}

pub fn kind_set_agreement_pub(cx: &mut Ctx, rule: &str) {
    kind_set_agreement_named(cx, rule)
}

fn kind_set_agreement(cx: &mut Ctx) {
    kind_set_agreement_named(cx, "C10.F3")
}

fn kind_set_agreement_named(cx: &mut Ctx, rule: &str) {
    cx.rule(rule, "three-way agreement on the feature-gated token kinds: variants gated in token.rs = kinds removed by every filter in parser.rs = kinds the soft-keyword start-of-line update passes through");
    cx.floor(rule, 3);
    let (tok, p, sk) = match (sm::load(&cx.repo, "parser/src/token.rs"), sm::load(&cx.repo, "parser/src/parser.rs"), sm::load(&cx.repo, "parser/src/soft_keywords.rs")) {
        (Ok(a), Ok(b), Ok(c)) => (a, b, c),
        _ => return cx.anchor_missing(rule, "token.rs / parser.rs / soft_keywords.rs"),
    };
    let gated: BTreeSet<String> = tables::tok_variants(&tok).into_iter().filter(|(_, c, _)| c.as_deref() == Some("full-lexer")).map(|(v, _, _)| v).collect();
    if gated.is_empty() {
        return cx.anchor_missing(rule, "feature-gated Tok variants");
    }
    cx.ok(rule, &format!("token.rs gates {:?}", gated));
    // every filter in parser.rs
    let mut n = 0;
    let whole = sm::tsx(&p.file);
    let mut rest = whole.as_str();
    while let Some(pos) = rest.find("filter_ok(|(tok,_)|!matches!(tok,") {
        let sub = &rest[pos..];
        n += 1;
        match filter_kinds(sub) {
            Some(k) if k == gated => cx.ok(rule, &format!("parser.rs filter #{} removes {:?}", n, k)),
            other => cx.fail(rule, &format!("{}/filter{}", rule, n), &p.rel, &format!("filter #{} removes {:?} but the gated kinds are {:?}", n, other, gated)),
        }
        rest = &sub[10..];
    }
    if n == 0 {
        cx.fail(rule, &format!("{}/no-filter", rule), &p.rel, "no full-lexer filter in parser.rs");
    }
    // soft keywords passthrough: interpreted in both configurations
    match (crate::rules::c01::start_of_line_update(&sk, &tok, true), crate::rules::c01::start_of_line_update(&sk, &tok, false)) {
        (Ok((sets_full, keeps_full)), Ok((sets_default, keeps_default))) => {
            if keeps_full == gated && keeps_default.is_empty() && sets_full == sets_default {
                cx.ok(rule, &format!("soft_keywords: with full-lexer start_of_line is left unchanged exactly by {:?}; every other token kind is treated as in the default configuration", keeps_full));
            } else if keeps_full.is_empty() {
                cx.fail(rule, &format!("{}/soft-keywords/missing", rule), &sk.rel, "the soft-keyword pass does not keep start_of_line across comment / non-logical-newline tokens: with full-lexer a comment line before `match` would demote the keyword");
            } else {
                cx.fail(rule, &format!("{}/soft-keywords", rule), &sk.rel, &format!("the soft-keyword pass keeps start_of_line across {:?} but the gated kinds are {:?} (start-of-line kinds: full-lexer {:?}, default {:?})", keeps_full, gated, sets_full, sets_default));
            }
        }
        (Err(e), _) | (_, Err(e)) => cx.fail(rule, &format!("{}/soft-keywords/uninterpretable", rule), &sk.rel, &format!("the start_of_line update cannot be interpreted: {}", e)),
    }
    // the passthrough statement must be full-lexer gated
    let sites = collect_cfg_sites(&sk);
    if sites.iter().filter(|s| s.features.iter().any(|(f, p)| f == "full-lexer" && *p)).count() == 1 {
        cx.ok(rule, "soft_keywords has exactly one full-lexer site (the pass-through)");
    } else {
        cx.fail(rule, &format!("{}/soft-keywords/sites", rule), &sk.rel, "unexpected number of full-lexer sites in soft_keywords.rs");
    }
}

fn ranges_feature(cx: &mut Ctx) {
    let rule = "C10.R1";
    cx.rule(rule, "all-nodes-with-ranges only switches the OptionalRange alias (R vs EmptyRange<R>) and the range plumbing: the alias has exactly the two complementary definitions, EmptyRange::new ignores its arguments, optional_range() is a plain constructor call, and in the grammar optional_range(..) flows only into `range` fields or Arguments::empty (never into control flow)");
    cx.floor(rule, 18);
    let g = match sm::load(&cx.repo, "ast/src/generic.rs") {
        Ok(s) => s,
        Err(e) => return cx.anchor_missing(rule, &e),
    };
    let mut defs = vec![];
    for it in &g.file.items {
        if let syn::Item::Type(t) = it {
            if t.ident == "OptionalRange" {
                let f = sm::cfg_features(&t.attrs);
                defs.push((f, sm::tsc(&t.ty)));
            }
        }
    }
    let on = defs.iter().find(|(f, _)| f.iter().any(|(n, p)| n == "all-nodes-with-ranges" && *p));
    let off = defs.iter().find(|(f, _)| f.iter().any(|(n, p)| n == "all-nodes-with-ranges" && !*p));
    match (on, off) {
        (Some((_, a)), Some((_, b))) if a == "R" && b == "EmptyRange<R>" && defs.len() == 2 => cx.ok(rule, "OptionalRange<R> = R with the feature, EmptyRange<R> without"),
        _ => cx.fail(rule, &format!("{}/alias", rule), &g.rel, &format!("OptionalRange definitions are {:?}", defs)),
    }
    match g.method("EmptyRange", "new") {
        Some(m) => {
            let t = sm::tsx(&m.sig.inputs);
            if t.contains("_start") && t.contains("_end") {
                cx.ok(rule, "EmptyRange::new ignores start and end");
            } else {
                cx.fail(rule, &format!("{}/empty-range-new", rule), &g.loc(m), "EmptyRange::new uses its arguments");
            }
        }
        None => cx.anchor_missing(rule, "EmptyRange::new"),
    }
    let p = match sm::load(&cx.repo, "parser/src/parser.rs") {
        Ok(s) => s,
        Err(e) => return cx.anchor_missing(rule, &e),
    };
    match p.free_fns("optional_range").into_iter().next() {
        Some(f) if sm::tsx(&f.block) == "{OptionalRange::<TextRange>::new(start,end)}" => cx.ok(rule, "optional_range(start, end) = OptionalRange::<TextRange>::new(start, end)"),
        Some(f) => cx.fail(rule, &format!("{}/optional_range", rule), &p.loc(f), "optional_range is not a plain OptionalRange::new call"),
        None => cx.anchor_missing(rule, "optional_range"),
    }
    // grammar: every optional_range( occurrence is a `range:` field value or the argument of Arguments::empty
    let gr = match tables::load_grammar(&cx.repo) {
        Ok(g) => g,
        Err(e) => return cx.anchor_missing(rule, &e),
    };
    for (d, a, e) in crate::rules::grammar_rules::actions(&gr) {
        let mut total = 0;
        let mut accounted = 0;
        sm::for_each_expr(e, |x| match x {
            syn::Expr::Call(c) if sm::tsc(&c.func) == "optional_range" => total += 1,
            _ => {}
        });
        sm::for_each_expr(e, |x| match x {
            syn::Expr::Struct(s) => {
                for fv in &s.fields {
                    if sm::ts(&fv.member) == "range" && sm::tsc(&fv.expr).starts_with("optional_range(") {
                        accounted += 1;
                    }
                }
            }
            syn::Expr::Call(c) if sm::tsc(&c.func).ends_with("Arguments::empty") => {
                if c.args.len() == 1 && sm::tsc(&c.args[0]).starts_with("optional_range(") {
                    accounted += 1;
                }
            }
            _ => {}
        });
        if total == 0 {
            continue;
        }
        if total == accounted {
            cx.ok(rule, &format!("{}: {} optional_range value(s) flow into range fields", crate::rules::grammar_rules::alt_key(d, a), total));
        } else {
            cx.fail(rule, &format!("{}/flow/{}", rule, crate::rules::grammar_rules::alt_key(d, a)), &crate::rules::grammar_rules::lal(a), &format!("{} of {} optional_range(..) values are used for something other than a `range` field", total - accounted, total));
        }
    }
}

fn bigint_alias(cx: &mut Ctx) {
    let rule = "C10.B1";
    cx.rule(rule, "the two big-integer backends are exposed only through the `bigint` alias (ast/src/lib.rs, format/src/bigint.rs), each alias site has exactly the malachite and num variants under their own feature, and no other source file names a backend crate directly");
    cx.floor(rule, 3);
    for (rel, want_a, want_b) in [("ast/src/lib.rs", "malachite_bigintasbigint", "num_bigintasbigint"), ("format/src/bigint.rs", "malachite_bigint::{BigInt,Sign}", "num_bigint::{BigInt,Sign}")] {
        match sm::load(&cx.repo, rel) {
            Err(e) => cx.anchor_missing(rule, &e),
            Ok(src) => {
                let mut uses = vec![];
                for it in &src.file.items {
                    if let syn::Item::Use(u) = it {
                        let t = sm::tsx(&u.tree);
                        if t.contains("bigint") {
                            uses.push((sm::cfg_features(&u.attrs), t));
                        }
                    }
                }
                let a = uses.iter().any(|(f, t)| t == want_a && f == &vec![("malachite-bigint".to_string(), true)]);
                let b = uses.iter().any(|(f, t)| t == want_b && f == &vec![("num-bigint".to_string(), true)]);
                if a && b && uses.len() == 2 {
                    cx.ok(rule, &format!("{}: malachite / num aliases under their own features", rel));
                } else {
                    cx.fail(rule, &format!("{}/alias/{}", rule, rel), rel, &format!("backend alias lines are {:?}", uses));
                }
            }
        }
    }
    let mut n = 0;
    for rel in workspace_rs_files(&cx.repo) {
        if rel == "ast/src/lib.rs" || rel == "format/src/bigint.rs" || rel.ends_with("python.rs") {
            continue;
        }
        let Ok(src) = sm::load(&cx.repo, &rel) else { continue };
        n += 1;
        let t = sm::tsx(&src.file);
        for b in ["malachite_bigint::", "num_bigint::", "externcratemalachite_bigint", "externcratenum_bigint"] {
            if t.contains(b) {
                cx.fail(rule, &format!("{}/direct/{}", rule, rel), &rel, &format!("`{}` is named directly: integer values would depend on the backend", b));
            }
        }
    }
    cx.ok(rule, &format!("{} other files use big integers only through the alias", n));
}

/// todo!/unimplemented! inventory and who-may-call for ArgWithDefault::from_arg (todo!() under all-nodes-with-ranges).
fn unfinished_paths(cx: &mut Ctx) {
    let rule = "C10.U1";
    cx.rule(rule, "feature-dependent unfinished code is unreachable from parsing: ArgWithDefault::from_arg (todo!() under all-nodes-with-ranges) is called only from PythonArguments::into_arguments and never from a grammar action or the parser crate; no other todo!/unimplemented! exists in parser/ast sources besides the tabled ones");
    cx.floor(rule, 3);
    let table: BTreeSet<(&str, &str)> = [("ast/src/generic.rs", "todo"), ("parser/src/lexer.rs", "unimplemented")].into_iter().collect();
    let mut callers = vec![];
    for rel in workspace_rs_files(&cx.repo) {
        if !(rel.starts_with("parser/src") || rel.starts_with("ast/src")) || rel.ends_with("python.rs") {
            continue;
        }
        let Ok(src) = sm::load(&cx.repo, &rel) else { continue };
        let t = sm::tsx(&src.file);
        for m in ["todo", "unimplemented"] {
            let n = t.matches(&format!("{}!(", m)).count();
            if n > 0 {
                if table.contains(&(rel.as_str(), m)) && n == 1 {
                    cx.ok(rule, &format!("{}: one tabled {}!()", rel, m));
                } else {
                    cx.fail(rule, &format!("{}/{}/{}", rule, m, rel), &rel, &format!("{} {}!() site(s) in {} (not tabled)", n, m, rel));
                }
            }
        }
        let n = t.matches("from_arg(").count() - t.matches("fnfrom_arg(").count();
        if n > 0 {
            callers.push((rel.clone(), n));
        }
    }
    // grammar actions
    if let Ok(text) = std::fs::read_to_string(cx.repo.join("parser/src/python.lalrpop")) {
        if text.contains("from_arg") {
            callers.push(("parser/src/python.lalrpop".into(), text.matches("from_arg").count()));
        }
    }
    if callers == vec![("ast/src/generic.rs".to_string(), 3usize)] {
        cx.ok(rule, "from_arg is called only inside ast/src/generic.rs (3 calls in into_arguments)");
    } else {
        cx.fail(rule, &format!("{}/from_arg-callers", rule), "ast/src/generic.rs", &format!("ArgWithDefault::from_arg (todo!() under all-nodes-with-ranges) is called from {:?}", callers));
    }
}
