//! C16 — repr of text and bytes: layout/writer agreement by partition, fast-path soundness, quote choice,
//! writer <-> reader escape agreement.

use crate::eval::{utf8_len, Machine, V};
use crate::report::Ctx;
use crate::srcmodel::{self as sm, Src};
use crate::tables;
use std::collections::{BTreeMap, BTreeSet};

fn quote_methods(recv: &V, m: &str, _args: &[V]) -> Option<V> {
    match (recv, m) {
        (V::Enum(e), "swap") if e.ends_with("Single") => Some(V::Enum("Quote::Double".into())),
        (V::Enum(e), "swap") if e.ends_with("Double") => Some(V::Enum("Quote::Single".into())),
        (V::Enum(e), "to_char") if e.ends_with("Single") => Some(V::Char('\'' as u32)),
        (V::Enum(e), "to_char") if e.ends_with("Double") => Some(V::Char('"' as u32)),
        (V::Enum(e), "to_byte") if e.ends_with("Single") => Some(V::Int('\'' as i128)),
        (V::Enum(e), "to_byte") if e.ends_with("Double") => Some(V::Int('"' as i128)),
        _ => None,
    }
}

/// All integer/char constants mentioned in a function body (breakpoints of the partition).
fn breakpoints(f: &syn::ImplItemFn, out: &mut BTreeSet<u32>) {
    struct Vv<'a> {
        out: &'a mut BTreeSet<u32>,
    }
    impl<'a, 'ast> syn::visit::Visit<'ast> for Vv<'a> {
        fn visit_lit(&mut self, l: &'ast syn::Lit) {
            match l {
                syn::Lit::Char(c) => {
                    self.out.insert(c.value() as u32);
                }
                syn::Lit::Byte(b) => {
                    self.out.insert(b.value() as u32);
                }
                syn::Lit::Int(i) => {
                    if let Ok(v) = i.base10_parse::<u32>() {
                        self.out.insert(v);
                    }
                }
                _ => {}
            }
        }
    }
    use syn::visit::Visit;
    Vv { out }.visit_impl_item_fn(f);
}

fn cells(bps: &BTreeSet<u32>, max: u32) -> Vec<u32> {
    // one representative per maximal interval on which no comparison with a breakpoint changes
    let mut pts: BTreeSet<u32> = BTreeSet::new();
    pts.insert(0);
    for b in bps {
        for d in [b.saturating_sub(1), *b, b.saturating_add(1)] {
            if d <= max {
                pts.insert(d);
            }
        }
    }
    for t in [0x7f, 0x80, 0x7ff, 0x800, 0xffff, 0x10000, max] {
        if t <= max {
            pts.insert(t);
        }
    }
    pts.into_iter().filter(|c| !(0xD800..=0xDFFF).contains(c)).collect()
}

fn find_method<'a>(src: &'a Src, ty: &str, name: &str) -> Option<&'a syn::ImplItemFn> {
    src.methods(ty, name).into_iter().map(|x| x.1).next()
}

pub fn run(cx: &mut Ctx) {
    let esc = match sm::load(&cx.repo, "literal/src/escape.rs") {
        Ok(s) => s,
        Err(e) => return cx.anchor_missing("C16", &e),
    };
    layout_writer(cx, &esc, "UnicodeEscape", 0x10FFFF);
    layout_writer(cx, &esc, "AsciiEscape", 0xFF);
    quote_choice(cx, &esc);
    fast_path(cx, &esc);
    writer_reader(cx, "C16.W1");
    printable_predicate(cx);
    layout_provenance(cx, &esc);
    // the repr is read back by the literal decoder: its escape table is part of the round trip
    if let Ok(refd) = tables::refdata(&cx.verif, "py311_escapes.json") {
        cx.refdata.insert("py311_escapes.json".into());
        crate::rules::c06::escape_table(cx, &refd, "C16.E1");
    }
}

/// L1: a layout's length belongs to its quote.
fn layout_provenance(cx: &mut Ctx, esc: &Src) {
    let rule = "C16.L1";
    cx.rule(rule, "an announced length is only ever paired with the quote it was computed for: outside output_layout_with_checker (which computes length and quote together) every `EscapeLayout { .. }` literal has `len: None` — a constructor that installs a quote chosen by the caller must not borrow the length computed for the preferred quote, or the fast path would copy a string that contains the forced quote unescaped");
    cx.floor(rule, 2);
    struct V<'a> {
        in_layout_fn: usize,
        sites: &'a mut Vec<(bool, String, usize)>, // (inside the layout function, len text, line)
    }
    impl<'a, 'ast> syn::visit::Visit<'ast> for V<'a> {
        fn visit_impl_item_fn(&mut self, f: &'ast syn::ImplItemFn) {
            let inside = f.sig.ident == "output_layout_with_checker";
            if inside {
                self.in_layout_fn += 1;
            }
            syn::visit::visit_impl_item_fn(self, f);
            if inside {
                self.in_layout_fn -= 1;
            }
        }
        fn visit_expr_struct(&mut self, st: &'ast syn::ExprStruct) {
            if st.path.segments.last().map_or(false, |s| s.ident == "EscapeLayout") {
                let len = st.fields.iter().find(|f| sm::ts(&f.member) == "len").map(|f| sm::tsc(&f.expr)).unwrap_or_else(|| "<rest>".into());
                self.sites.push((self.in_layout_fn > 0, len, sm::line(syn::spanned::Spanned::span(&st.path))));
            }
            syn::visit::visit_expr_struct(self, st);
        }
    }
    let mut sites = vec![];
    use syn::visit::Visit;
    V { in_layout_fn: 0, sites: &mut sites }.visit_file(&esc.file);
    let outside: Vec<&(bool, String, usize)> = sites.iter().filter(|s| !s.0).collect();
    if outside.len() < 2 || sites.iter().filter(|s| s.0).count() < 2 {
        return cx.fail(rule, &format!("{}/anchors", rule), &esc.rel, &format!("{} EscapeLayout literals outside and {} inside the layout function (2 and at least 2 expected)", outside.len(), sites.len() - outside.len()));
    }
    for (_, len, line) in outside {
        if len == "None" {
            cx.ok(rule, &format!("line {}: a forced quote comes with an unknown length (escaping writer)", line));
        } else {
            cx.fail(rule, &format!("{}/foreign-length", rule), &format!("{}:{}", esc.rel, line), &format!("an EscapeLayout is built with len `{}` outside the layout computation: the length may have been computed for another quote", len));
        }
    }
}

/// P1: which code points are written verbatim.
fn printable_predicate(cx: &mut Ctx) {
    let rule = "C16.P1";
    cx.rule(rule, "is_printable (literal/src/char.rs), interpreted with the two category predicates as free booleans, is exactly `not Other and not Separator` of the character's general category — Python's str.isprintable for non-ASCII characters (ASCII is decided by the escape tables before it is asked) — and depends on nothing else about the character");
    cx.floor(rule, 4);
    let src = match sm::load(&cx.repo, "literal/src/char.rs") {
        Ok(s) => s,
        Err(e) => return cx.anchor_missing(rule, &e),
    };
    let Some(f) = src.free_fns("is_printable").into_iter().next() else { return cx.anchor_missing(rule, "is_printable") };
    let t = sm::tsc(&f.block);
    if !t.contains("GeneralCategory::of(c)") {
        cx.fail(rule, &format!("{}/category", rule), &src.loc(f), "is_printable does not classify by GeneralCategory::of(c)");
    }
    let mut bad = vec![];
    for other in [false, true] {
        for sep in [false, true] {
            let mut results = std::collections::BTreeSet::new();
            for extra in [false, true] {
                let methods = move |recv: &crate::eval::V, name: &str, _args: &[crate::eval::V]| -> Option<crate::eval::V> {
                    match (recv, name) {
                        (crate::eval::V::Enum(_), "is_other") => Some(crate::eval::V::Bool(other)),
                        (crate::eval::V::Enum(_), "is_separator") => Some(crate::eval::V::Bool(sep)),
                        // any other predicate on the category or the character is a free boolean
                        (_, n) if n.starts_with("is_") => Some(crate::eval::V::Bool(extra)),
                        _ => None,
                    }
                };
                let fns = |_: &crate::eval::V, name: &str, _a: &[crate::eval::V]| -> Option<crate::eval::V> {
                    if name.ends_with("GeneralCategory::of") { Some(crate::eval::V::Enum("Category".into())) } else { None }
                };
                let both = move |r: &crate::eval::V, n: &str, a: &[crate::eval::V]| methods(r, n, a).or_else(|| fns(r, n, a));
                let mut m = crate::eval::Machine::new(&both);
                m.set("c", crate::eval::V::Char(0x3000));
                results.insert(format!("{:?}", m.eval_block(&f.block)));
            }
            let want = format!("{:?}", Ok::<crate::eval::V, String>(crate::eval::V::Bool(!(other || sep))));
            if results.len() == 1 && results.contains(&want) {
                cx.ok(rule, &format!("Other={} Separator={} -> printable={}", other, sep, !(other || sep)));
            } else {
                bad.push(format!("Other={} Separator={} -> {:?}", other, sep, results));
            }
        }
    }
    if !bad.is_empty() {
        cx.fail(rule, &format!("{}/predicate", rule), &src.loc(f), &format!("is_printable is not `!(is_other || is_separator)`: {}", bad.join("; ")));
    }
}

fn layout_shape_ok(src: &Src, ty: &str) -> Result<(), String> {
    let f = find_method(src, ty, "output_layout_with_checker").ok_or("output_layout_with_checker missing")?;
    let t = sm::tsx(&f.block);
    let (q1, q2, it) = if ty == "UnicodeEscape" { ("'\\''", "'\"'", "forchinsource.chars()") } else { ("b'\\''", "b'\"'", "forchinsource.iter()") };
    let call = if ty == "UnicodeEscape" { "_=>UnicodeEscape::escaped_char_len(ch)," } else { "_=>AsciiEscape::escaped_char_len(*ch)," };
    // (normal form: disjoint arms sorted, the catch-all arm reads the scrutinee)
    let want_match = format!("letincr=matchch{{{}=>{{double_count+=1;1}},{}=>{{single_count+=1;1}},{}}};", q2, q1, call);
    let want_match_b = format!("letincr=matchch{{{}=>{{single_count+=1;1}},{}=>{{double_count+=1;1}},{}}};", q1, q2, call);
    if !t.contains(it) {
        return Err("the layout does not iterate over every source character".into());
    }
    if !t.contains(&want_match) && !t.contains(&want_match_b) {
        return Err("the per-character increment is not `quote => count += 1; 1 | c => escaped_char_len(c)`".into());
    }
    if !t.contains("let(quote,num_escaped_quotes)=choose_quote(single_count,double_count,preferred_quote);") || !t.contains("matchlength_add(out_len,num_escaped_quotes){Some(out_len)=>EscapeLayout{len:Some(out_len-") {
        return Err("the layout does not add num_escaped_quotes from choose_quote(single_count, double_count, preferred_quote)".into());
    }
    let reserved = if ty == "UnicodeEscape" { "UnicodeEscape::REPR_RESERVED_LEN" } else { "reserved_len" };
    if !t.contains(&format!("letmutout_len={};", reserved)) || !t.contains(&format!("len:Some(out_len-{}),", reserved)) {
        return Err("the reserved length is not subtracted again from the announced length".into());
    }
    if !t.contains("matchlength_add(out_len,incr){Some(new_len)=>out_len=new_len,_=>{") || !t.contains("out_len=new_len") {
        return Err("the running length is not accumulated with length_add(out_len, incr)".into());
    }
    Ok(())
}

/// The layout/writer agreement of the escape module under another property's name: the unparser renders string and
/// bytes constants through `UnicodeEscape` / `AsciiEscape`, so a wrong announced length (fast path taken although a
/// character needs escaping) makes the rendering re-lex to another constant (C11).
pub fn escape_layout_rules(cx: &mut Ctx, prefix: &str) {
    let esc = match sm::load(&cx.repo, "literal/src/escape.rs") {
        Ok(s) => s,
        Err(e) => return cx.anchor_missing(prefix, &e),
    };
    layout_writer_as(cx, &esc, "UnicodeEscape", 0x10FFFF, prefix);
    layout_writer_as(cx, &esc, "AsciiEscape", 0xFF, prefix);
}

fn layout_writer(cx: &mut Ctx, esc: &Src, ty: &str, max: u32) {
    layout_writer_as(cx, esc, ty, max, "C16")
}

fn layout_writer_as(cx: &mut Ctx, esc: &Src, ty: &str, max: u32, prefix: &str) {
    let a1 = format!("{}.A1/{}", prefix, ty);
    let a2 = format!("{}.A2/{}", prefix, ty);
    cx.rule(&a1, "layout/writer agreement by partition: the scalar-value space is split at every constant either function compares against (and at the UTF-8 length thresholds), crossed with the opaque predicate is_printable and both quote choices; on every cell the length the layout pre-pass adds for a character equals the number of bytes write_char emits for it");
    cx.rule(&a2, "fast-path soundness: on every cell the emitted length is >= the character's own length, with equality exactly when write_char emits the character verbatim — so `announced length == source length` holds iff nothing needs escaping (for AsciiEscape the verbatim cells are printable ASCII, which also discharges from_utf8_unchecked)");
    cx.floor(&a1, 40);
    cx.floor(&a2, 40);
    if let Err(e) = layout_shape_ok(esc, ty) {
        cx.fail(&a1, &format!("{}/layout-shape", a1), &esc.rel, &format!("{}::output_layout_with_checker: {}", ty, e));
        return;
    }
    cx.ok(&a1, &format!("{}: layout = reserved + sum(per-char increment) + escaped quotes - reserved", ty));
    let (Some(lenf), Some(wf)) = (find_method(esc, ty, "escaped_char_len"), find_method(esc, ty, "write_char")) else {
        return cx.anchor_missing(&a1, &format!("{}::escaped_char_len / write_char", ty));
    };
    let mut bps = BTreeSet::new();
    breakpoints(lenf, &mut bps);
    breakpoints(wf, &mut bps);
    bps.insert('\'' as u32);
    bps.insert('"' as u32);
    // quick: one representative per cell of the partition; thorough: every scalar value (the partition argument is
    // then not needed: the two functions are evaluated on the whole input space)
    let reps: Vec<u32> = if cx.tier == "thorough" { (0..=max).filter(|c| !(0xD800..=0xDFFF).contains(c)).collect() } else { cells(&bps, max) };
    cx.unit(&format!("{} {}", ty, if cx.tier == "thorough" { "scalar values (exhaustive)" } else { "partition cells" }), reps.len());
    let bytes = ty == "AsciiEscape";
    let methods = quote_methods;
    let mut bad_a1 = 0;
    let mut bad_a2 = 0;
    for &c in &reps {
        for printable in [false, true] {
            if bytes && printable {
                continue;
            }
            for quote in ["Quote::Single", "Quote::Double"] {
                let qc = if quote.ends_with("Single") { '\'' as u32 } else { '"' as u32 };
                let chv = if bytes { V::Int(c as i128) } else { V::Char(c) };
                // layout
                let layout_len: Result<usize, String> = if c == '\'' as u32 || c == '"' as u32 {
                    Ok(1 + (c == qc) as usize)
                } else {
                    let mut m = Machine::new(&methods);
                    m.opaque.insert("is_printable".into(), printable);
                    m.set("ch", chv.clone());
                    m.eval_block(&lenf.block).and_then(|v| match v {
                        V::Int(i) => Ok(i as usize),
                        o => Err(format!("escaped_char_len returned {:?}", o)),
                    })
                };
                // writer
                let mut w = Machine::new(&methods);
                w.opaque.insert("is_printable".into(), printable);
                w.set("ch", chv.clone());
                w.set("quote", V::Enum(quote.to_string()));
                let wr = w.eval_block(&wf.block);
                let cell = format!("U+{:04X}{}{}", c, if bytes { "" } else if printable { " printable" } else { " non-printable" }, if c < 0x80 { format!(" quote={}", &quote[7..]) } else { String::new() });
                match (layout_len, wr) {
                    (Ok(l), Ok(_)) => {
                        let wl = w.written;
                        if l == wl {
                            if c >= 0x80 && quote.ends_with("Double") {
                                cx.ok_trivial(&a1);
                            } else {
                                cx.ok(&a1, &format!("{}: layout {} = written {}", cell, l, wl));
                            }
                        } else {
                            bad_a1 += 1;
                            if bad_a1 <= 6 {
                                cx.fail(&a1, &format!("{}/{}", a1, cell), &esc.loc(lenf), &format!("{}: the layout counts {} byte(s) for this character but write_char emits {}", cell, l, wl));
                            }
                        }
                        let own = if bytes { 1 } else { utf8_len(c) };
                        let verbatim = !w.wrote_escape;
                        let sound = wl >= own && ((wl == own) == verbatim);
                        if sound {
                            if bytes && verbatim && !(0x20..=0x7e).contains(&c) {
                                bad_a2 += 1;
                                cx.fail(&a2, &format!("{}/{}/non-ascii-verbatim", a2, cell), &esc.loc(wf), &format!("{}: byte emitted verbatim outside printable ASCII (from_utf8_unchecked on the fast path would be unsound)", cell));
                            } else if c >= 0x80 && quote.ends_with("Double") {
                                cx.ok_trivial(&a2);
                            } else {
                                cx.ok(&a2, &format!("{}: emits {} >= {}{}", cell, wl, own, if verbatim { " (verbatim)" } else { " (escaped)" }));
                            }
                        } else {
                            bad_a2 += 1;
                            if bad_a2 <= 6 {
                                cx.fail(&a2, &format!("{}/{}", a2, cell), &esc.loc(wf), &format!("{}: emits {} byte(s) for a {}-byte character, verbatim={}: equal total length would not imply `nothing escaped`", cell, wl, own, verbatim));
                            }
                        }
                    }
                    (Err(e), _) | (_, Err(e)) => {
                        cx.fail(&a1, &format!("{}/unrecognised", a1), &esc.loc(lenf), &format!("{}: the partition evaluator does not know a construct: {}", cell, e));
                        return;
                    }
                }
            }
        }
    }
}

fn quote_choice(cx: &mut Ctx, esc: &Src) {
    let rule = "C16.Q1";
    cx.rule(rule, "choose_quote, evaluated over every ordering of (single_count, double_count) relative to 0 and to each other and both preferred quotes, picks the preferred quote unless the text contains the preferred quote and not the other one, and returns the count of the CHOSEN quote (the number of quotes that will be escaped)");
    cx.floor(rule, 18);
    let Some(f) = esc.free_fns("choose_quote").into_iter().next() else { return cx.anchor_missing(rule, "choose_quote") };
    let methods = quote_methods;
    for pref in ["Quote::Single", "Quote::Double"] {
        for s in 0..3i128 {
            for d in 0..3i128 {
                let mut m = Machine::new(&methods);
                m.set("single_count", V::Int(s));
                m.set("double_count", V::Int(d));
                m.set("preferred_quote", V::Enum(pref.to_string()));
                let (p, o) = if pref.ends_with("Single") { (s, d) } else { (d, s) };
                let other = if pref.ends_with("Single") { "Quote::Double" } else { "Quote::Single" };
                let want = if p > 0 && o == 0 { V::Tuple(vec![V::Enum(other.into()), V::Int(o)]) } else { V::Tuple(vec![V::Enum(pref.into()), V::Int(p)]) };
                let case = format!("single={} double={} preferred={}", s, d, &pref[7..]);
                match m.eval_block(&f.block) {
                    Ok(v) if v == want => cx.ok(rule, &format!("{} -> {:?}", case, v)),
                    Ok(v) => cx.fail(rule, &format!("{}/{}", rule, case), &esc.loc(f), &format!("choose_quote({}) = {:?}, Python's rule gives {:?}", case, v, want)),
                    Err(e) => {
                        cx.fail(rule, &format!("{}/unrecognised", rule), &esc.loc(f), &format!("choose_quote: unknown construct: {}", e));
                        return;
                    }
                }
            }
        }
    }
    // new_repr prefers single quotes
    let t = sm::tsx(&esc.file);
    if t.matches("pubfnnew_repr(source:&'astr)->Self{UnicodeEscape::with_preferred_quote(source,Quote::Single)}").count() == 1 && t.matches("pubfnnew_repr(source:&'a[u8])->Self{AsciiEscape::with_preferred_quote(source,Quote::Single)}").count() == 1 {
        cx.ok(rule, "new_repr prefers single quotes for text and bytes");
    } else {
        cx.fail(rule, &format!("{}/new_repr", rule), &esc.rel, "new_repr does not prefer Quote::Single");
    }
}

fn fast_path(cx: &mut Ctx, esc: &Src) {
    let rule = "C16.F1";
    cx.rule(rule, "the fast path is taken iff the announced length equals the source length: changed() = (layout.len != Some(source_len())), write_body dispatches on changed(), source_len is the byte length, and the repr writers put the chosen quote on both sides of write_body");
    cx.floor(rule, 5);
    let t = sm::tsx(&esc.file);
    let checks = [
        ("changed", "fnchanged(&self)->bool{self.layout().len!=Some(self.source_len())}"),
        ("write_body", "{ifself.changed(){self.write_body_slow(formatter)}else{self.write_source(formatter)}}"),
        ("str-source_len", "fnsource_len(&self)->usize{self.source.len()}"),
        ("str-repr-write", "letquote=self.0.layout().quote.to_char();formatter.write_char(quote)?;self.0.write_body(formatter)?;formatter.write_char(quote)"),
        ("bytes-repr-write", "letquote=self.0.layout().quote.to_char();formatter.write_char('b')?;formatter.write_char(quote)?;self.0.write_body(formatter)?;formatter.write_char(quote)"),
    ];
    // the slow path writes every source character through write_char with the layout's quote (loop or iterator adaptor)
    {
        let re = regex::Regex::new(r"(?:Self|UnicodeEscape|AsciiEscape)::write_char\(\*?(\w+),self\.layout\(\)\.quote,formatter\)").unwrap();
        let n = re.find_iter(&t.text).count();
        let iterates = (t.contains("inself.source.chars()") || t.contains("self.source.chars().try_for_each(")) && (t.contains("inself.source.iter()") || t.contains("self.source.iter().try_for_each("));
        if n == 2 && iterates {
            cx.ok(rule, "slow-uses-layout-quote");
        } else {
            cx.fail(rule, &format!("{}/slow-uses-layout-quote", rule), &esc.rel, "expected shape not found: slow-uses-layout-quote");
        }
    }
    for (k, frag) in checks {
        if t.contains(frag) {
            cx.ok(rule, k);
        } else {
            cx.fail(rule, &format!("{}/{}", rule, k), &esc.rel, &format!("expected shape not found: {}", k));
        }
    }
}

/// Writer <-> reader: every escape form the writers can emit is decoded by parser/string.rs with the same meaning.
pub fn writer_reader(cx: &mut Ctx, rule: &str) {
    cx.rule(rule, "every escape form the repr writers can emit (\\n \\t \\r, backslash before the quote and before a backslash, \\xHH, \\uHHHH, \\UHHHHHHHH) is an escape of the reference table with the same meaning and digit count — and the parser's reader equals that table (C06.E1)");
    cx.floor(rule, 9);
    let esc = match sm::load(&cx.repo, "literal/src/escape.rs") {
        Ok(s) => s,
        Err(e) => return cx.anchor_missing(rule, &e),
    };
    let refd = match tables::refdata(&cx.verif, "py311_escapes.json") {
        Ok(v) => v,
        Err(e) => return cx.anchor_missing(rule, &e),
    };
    cx.refdata.insert("py311_escapes.json".into());
    let simple: BTreeMap<char, u32> = refd["simple_escapes"].as_object().unwrap().iter().map(|(k, v)| (k.chars().next().unwrap(), v.as_u64().unwrap() as u32)).collect();
    let hex: BTreeMap<char, u64> = refd["hex_escapes"].as_object().unwrap().iter().map(|(k, v)| (k.chars().next().unwrap(), v.as_u64().unwrap())).collect();
    for ty in ["UnicodeEscape", "AsciiEscape"] {
        let Some(wf) = find_method(&esc, ty, "write_char") else {
            cx.anchor_missing(rule, &format!("{}::write_char", ty));
            continue;
        };
        let mm = wf.block.stmts.iter().find_map(|s| if let syn::Stmt::Expr(syn::Expr::Match(m), _) = s { Some(m) } else { None });
        let Some(mm) = mm else {
            cx.fail(rule, &format!("{}/{}/shape", rule, ty), &esc.loc(wf), "write_char is not a match");
            continue;
        };
        for arm in &mm.arms {
            let body = sm::unblock(&arm.body);
            // write_str("\\n") arms: the arm's pattern char must be the escape's meaning
            if let syn::Expr::MethodCall(mc) = body {
                if mc.method == "write_str" {
                    if let Some(s) = tables::lit_str(&mc.args[0]) {
                        let letter = s.chars().nth(1);
                        let pat_c: Option<u32> = match &arm.pat {
                            syn::Pat::Lit(l) => match &l.lit {
                                syn::Lit::Char(c) => Some(c.value() as u32),
                                syn::Lit::Byte(b) => Some(b.value() as u32),
                                _ => None,
                            },
                            _ => None,
                        };
                        match (letter, pat_c) {
                            (Some(l), Some(pc)) if s.len() == 2 && s.starts_with('\\') && simple.get(&l) == Some(&pc) => cx.ok(rule, &format!("{}: U+{:04X} written as \\{}", ty, pc, l)),
                            _ => cx.fail(rule, &format!("{}/{}/{}", rule, ty, s.escape_default()), &esc.loc(&arm.pat), &format!("{} writes `{}` for pattern {}, which is not the reference meaning of that escape", ty, s, sm::tsc(&arm.pat))),
                        }
                    }
                }
            }
            // write!(formatter, "\\x{:02x}", ..)
            let mut formats = vec![];
            sm::for_each_expr(&arm.body, |e| {
                if let syn::Expr::Macro(m) = e {
                    if m.mac.path.is_ident("write") {
                        let toks = sm::tsc(&m.mac.tokens);
                        if let Some(p) = toks.find('"') {
                            if let Some(q) = toks[p + 1..].find('"') {
                                formats.push(toks[p + 1..p + 1 + q].to_string());
                            }
                        }
                    }
                }
            });
            for f in formats {
                // forms: \\x{:02x}  \\u{:04x}  \\U{:08x}  \\x{ch:02x}
                let un = f.replace("\\\\", "\\");
                let letter = un.chars().nth(1).unwrap_or('?');
                let width: Option<u64> = un.split(":0").nth(1).and_then(|r| r.trim_end_matches("x}").parse().ok());
                match (hex.get(&letter), width) {
                    (Some(w), Some(g)) if *w == g && un.starts_with('\\') && un.ends_with("x}") => cx.ok(rule, &format!("{}: \\{} with {} lower-case hex digits", ty, letter, g)),
                    _ => cx.fail(rule, &format!("{}/{}/format/{}", rule, ty, letter), &esc.loc(&arm.pat), &format!("{} writes with format `{}`: not a reference hex escape with the reference digit count", ty, f)),
                }
            }
            // backslash before quote / backslash
            let t = sm::tsx(&arm.body);
            if t.contains("formatter.write_char('\\\\')?;") {
                let cond_ok = t.contains("ifch==quote.to_char()||ch=='\\\\'{formatter.write_char('\\\\')?;}") || t.contains("ifch==quote.to_byte()||ch==b'\\\\'{formatter.write_char('\\\\')?;}");
                if cond_ok && simple.contains_key(&'\\') && simple.contains_key(&'\'') && simple.contains_key(&'"') {
                    cx.ok(rule, &format!("{}: a backslash is put before exactly the chosen quote and the backslash", ty));
                } else {
                    cx.fail(rule, &format!("{}/{}/backslash", rule, ty), &esc.loc(&arm.pat), "the backslash is not written exactly before the chosen quote and a backslash");
                }
            }
        }
    }
}
