//! Lexer rules shared by C02, C03, C04, C05, C08: byte accounting, emit discipline, operator trie.

use crate::report::Ctx;
use crate::srcmodel::{self as sm, Src};
use crate::tables;
use std::collections::{BTreeMap, BTreeSet};

pub fn load_lexer(cx: &mut Ctx, rule: &str) -> Option<Src> {
    match sm::load(&cx.repo, "parser/src/lexer.rs") {
        Ok(s) => Some(s),
        Err(e) => {
            cx.anchor_missing(rule, &e);
            None
        }
    }
}

/// All methods of `impl Lexer` (every cfg variant), with their cfg features.
pub fn lexer_methods(lx: &Src) -> Vec<(&syn::ImplItemFn, Vec<(String, bool)>)> {
    let mut out = vec![];
    for i in lx.impls() {
        if sm::self_ty_name(i) != "Lexer" {
            continue;
        }
        for it in &i.items {
            if let syn::ImplItem::Fn(f) = it {
                out.push((f, sm::cfg_features(&f.attrs)));
            }
        }
    }
    out
}

pub fn lexer_method<'a>(lx: &'a Src, name: &str) -> Option<&'a syn::ImplItemFn> {
    // prefer the default-configuration variant (not gated by a positive feature)
    let ms: Vec<_> = lexer_methods(lx).into_iter().filter(|(f, _)| f.sig.ident == name).collect();
    ms.iter().find(|(_, c)| !c.iter().any(|(_, pos)| *pos)).or(ms.first()).map(|x| x.0)
}

fn span_pos<T: syn::spanned::Spanned>(t: &T) -> (usize, usize) {
    let s = t.span().start();
    (s.line, s.column)
}

// ================================================================== N1 byte accounting

#[derive(Clone, Copy, PartialEq)]
pub enum Acct {
    /// exact byte accounting (positions are byte offsets of the text): C02, C03, C05
    Full,
    /// positions only ever advance relatively (translation invariance): C09
    Relative,
    /// character folding and window sliding only (what the token stream depends on): C08
    Folding,
}

pub fn byte_accounting(cx: &mut Ctx, rule: &str) {
    byte_accounting_mode(cx, rule, Acct::Full)
}

pub fn byte_accounting_mode(cx: &mut Ctx, rule: &str, mode: Acct) {
    match mode {
        Acct::Full => cx.rule(rule, "Lexer::next_char is the only function that advances `location` and slides the character window (besides Lexer::new, which seeds location with the start offset and skips a BOM by its own byte length); on every path through next_char the bytes added equal the bytes of the characters slid: CR LF -> 2 slides +2, lone CR -> 1 slide +1, other char c -> 1 slide + c.text_len(), end of input -> 1 slide +0; both CR paths return '\\n'"),
        Acct::Relative => cx.rule(rule, "the lexer's position is seeded with the caller's start offset in Lexer::new and afterwards only ever advanced relatively (`location += <amount that does not read a position>`), never assigned; get_pos() returns it unchanged — so the start offset translates every position"),
        Acct::Folding => cx.rule(rule, "line-ending folding: Lexer::next_char (and the window filling in Lexer::new) are the only code that slides the character window; in next_char CR LF slides twice and yields one '\\n', a lone CR slides once and yields '\\n', any other character slides once and is returned unchanged — CR, LF and CRLF sources give the lexer the same character stream"),
    }
    cx.floor(rule, match mode { Acct::Full => 8, Acct::Relative => 4, Acct::Folding => 5 });
    let Some(lx) = load_lexer(cx, rule) else { return };
    // who writes location / slides
    let mut writers: BTreeMap<String, Vec<String>> = BTreeMap::new();
    let mut sliders: BTreeMap<String, usize> = BTreeMap::new();
    for (f, _) in lexer_methods(&lx) {
        let fname = f.sig.ident.to_string();
        sm::for_each_expr_in_block(&f.block, |e| {
            match e {
                syn::Expr::Assign(a) => {
                    let l = sm::tsc(&a.left);
                    if l.ends_with(".location") {
                        writers.entry(fname.clone()).or_default().push(format!("{}={}", l, sm::tsc(&a.right)));
                    }
                }
                syn::Expr::Binary(b) => {
                    let l = sm::tsc(&b.left);
                    if l.ends_with(".location") {
                        let op = sm::ts(&b.op);
                        if op.ends_with('=') && op != "==" && op != "<=" && op != ">=" && op != "!=" {
                            writers.entry(fname.clone()).or_default().push(format!("{}{}{}", l, op, sm::tsc(&b.right)));
                        }
                    }
                }
                syn::Expr::MethodCall(mc) => {
                    if mc.method == "slide" && sm::tsc(&mc.receiver).ends_with(".window") {
                        *sliders.entry(fname.clone()).or_insert(0) += 1;
                    }
                }
                _ => {}
            }
        });
    }
    for (fname, ws) in &writers {
        if mode == Acct::Folding {
            break;
        }
        for w in ws {
            if mode == Acct::Relative {
                let rhs = w.split("+=").nth(1);
                let ok = matches!(rhs, Some(r) if !r.contains("location") && !r.contains("get_pos") && !r.contains("start")) && !w.contains("-=");
                if ok {
                    cx.ok(rule, &format!("{}: `{}` advances relatively", fname, w));
                } else {
                    cx.fail(rule, &format!("{}/writer/{}/{}", rule, fname, w), &lx.rel, &format!("Lexer::{} writes the position with `{}`: an assignment (or an advance by a position) discards the start offset", fname, w));
                }
                continue;
            }
            let ok = matches!(fname.as_str(), "next_char" | "new") && w.contains(".location+=");
            if ok {
                cx.ok(rule, &format!("{}: `{}`", fname, w));
            } else {
                cx.fail(rule, &format!("{}/writer/{}/{}", rule, fname, w), &lx.rel, &format!("Lexer::{} writes the position with `{}`: only next_char may advance it (by the consumed bytes) and new() may add the BOM's length", fname, w));
            }
        }
    }
    for (fname, n) in &sliders {
        if mode == Acct::Relative {
            break;
        }
        if fname == "next_char" || fname == "new" {
            cx.ok(rule, &format!("{} slides the window {}x", fname, n));
        } else {
            cx.fail(rule, &format!("{}/slider/{}", rule, fname), &lx.rel, &format!("Lexer::{} slides the window without position bookkeeping", fname));
        }
    }
    // Lexer::new
    match lexer_method(&lx, "new") {
        None => cx.anchor_missing(rule, "Lexer::new"),
        Some(m) => {
            let t = sm::tsx(&m.block);
            let mut probs = vec![];
            if !t.contains("location:start,") && mode != Acct::Folding {
                probs.push("location is not seeded with the `start` parameter".to_string());
            }
            // BOM branch: a decision on lxr.window[0] whose only non-empty branch is exactly {U+FEFF}, with one slide
            // and an advance by the BOM's byte length
            let mut bom_ok = false;
            // the local that holds the lexer under construction: `let mut X = Lexer { .. }`
            let mut lxr = "lxr".to_string();
            for st in &m.block.stmts {
                if let syn::Stmt::Local(l) = st {
                    if let (Some(init), syn::Pat::Ident(pi)) = (&l.init, &l.pat) {
                        if matches!(&*init.expr, syn::Expr::Struct(sx) if sx.path.segments.last().map_or(false, |x| x.ident == "Lexer")) {
                            lxr = pi.ident.to_string();
                        }
                    }
                }
            }
            sm::for_each_expr_in_block(&m.block, |e| {
                if let Some((scrut, brs)) = branches(e) {
                    if scrut != format!("{}.window[0]", lxr) {
                        return;
                    }
                    let bom: BTreeSet<char> = ['\u{feff}'].into_iter().collect();
                    let mut good = brs.len() == 2 && brs[0].pat == CPat::Chars(bom) && brs[1].pat == CPat::Wild && brs[1].body.is_empty();
                    if good {
                        let mut slides = 0;
                        let mut bytes = vec![];
                        for st in &brs[0].body {
                            let t = sm::tsc(*st);
                            if t == format!("{}.window.slide();", lxr) {
                                slides += 1;
                            } else if let syn::Stmt::Expr(syn::Expr::Binary(b), _) = st {
                                if sm::tsc(&b.left) == format!("{}.location", lxr) && matches!(b.op, syn::BinOp::AddAssign(_)) {
                                    bytes.push(inc_value(&b.right, &BTreeSet::new()));
                                } else {
                                    good = false;
                                }
                            } else {
                                good = false;
                            }
                        }
                        good = good && slides == 1 && bytes == vec![Inc::Const('\u{feff}'.len_utf8() as u32)];
                    }
                    bom_ok = good;
                }
            });
            if mode != Acct::Full {
                bom_ok = true;
            }
            if !bom_ok {
                probs.push("the BOM branch does not skip exactly U+FEFF with one slide and an advance by its 3 bytes".to_string());
            }
            if mode == Acct::Full && sliders.get("new").copied().unwrap_or(0) != 4 {
                probs.push(format!("{} window slides in new() (3 to fill + 1 for the BOM expected)", sliders.get("new").copied().unwrap_or(0)));
            }
            if probs.is_empty() {
                cx.ok(rule, match mode {
                    Acct::Full => "Lexer::new: location = start; BOM skipped with one slide and += its text_len()",
                    Acct::Relative => "Lexer::new: location = start",
                    Acct::Folding => "Lexer::new fills the window",
                });
            } else {
                cx.fail(rule, &format!("{}/new", rule), &lx.loc(m), &probs.join("; "));
            }
        }
    }
    // next_char paths
    match lexer_method(&lx, "next_char") {
        _ if mode == Acct::Relative => {}
        None => cx.anchor_missing(rule, "Lexer::next_char"),
        Some(m) => match next_char_paths(m) {
            Err(e) => cx.fail(rule, &format!("{}/next_char/unrecognised", rule), &lx.loc(m), &format!("next_char has a shape the byte-accounting interpreter does not know: {}", e)),
            Ok(paths) => {
                // scenario -> (slides, constant bytes, text_len(char) terms, returned value)
                let want: BTreeMap<&str, (usize, u32, usize, &str)> = [("cr,lf", (2usize, 2u32, 0usize, "Some('\\n')")), ("cr,!lf", (1, 1, 0, "Some('\\n')")), ("char", (1, 0, 1, "the character")), ("none", (1, 0, 0, "None"))].into_iter().collect();
                for p in &paths {
                    let (slides, consts, of_char, ret) = want[p.class];
                    let bytes_ok = mode == Acct::Folding || (p.consts == consts && p.of_char == of_char && p.unknown.is_empty());
                    if p.slides == slides && bytes_ok && p.ret == ret {
                        cx.ok(rule, &format!("next_char scenario [{}]: {} slide(s), location += {} byte(s){}, returns {}", p.class, p.slides, p.consts, if p.of_char > 0 { " + text_len(c)" } else { "" }, p.ret));
                    } else {
                        cx.fail(rule, &format!("{}/next_char/{}", rule, p.class), &lx.loc(m), &format!("scenario [{}]: {} slide(s), location += {} constant byte(s) + {} x text_len(c) {:?}, returns {}; expected {} slide(s), {} byte(s) + {} x text_len(c), returns {}", p.class, p.slides, p.consts, p.of_char, p.unknown, p.ret, slides, consts, of_char, ret));
                    }
                }
            }
        },
    }
    // get_pos returns location
    match lexer_method(&lx, "get_pos") {
        _ if mode == Acct::Folding => {}
        Some(m) if sm::tsx(&m.block) == "{self.location}" => cx.ok(rule, "get_pos() = self.location"),
        Some(m) => cx.fail(rule, &format!("{}/get_pos", rule), &lx.loc(m), "get_pos does not return self.location"),
        None => cx.anchor_missing(rule, "Lexer::get_pos"),
    }
}

// ------------------------------------------------------------------ next_char, executed per scenario

#[derive(Clone, Debug, PartialEq)]
enum Slot {
    Cr,
    Lf,
    /// some character other than CR (symbolic; `NotLf` additionally excludes LF)
    Char,
    NotLf,
    Empty,
    Unknown,
}

#[derive(Clone, Debug, PartialEq)]
pub enum Inc {
    Const(u32),
    /// text_len() of the consumed (symbolic) character
    OfChar,
    Unknown(String),
}

/// Byte value of an advance expression: TextSize::from(k) / TextSize::new(k) / '<c>'.text_len() / "<s>".text_len()
/// are constants; `<binding of the consumed char>.text_len()` is symbolic.
pub fn inc_value(e: &syn::Expr, char_vars: &BTreeSet<String>) -> Inc {
    match e {
        syn::Expr::Paren(p) => inc_value(&p.expr, char_vars),
        syn::Expr::Call(c) if c.args.len() == 1 && matches!(sm::tsc(&c.func).as_str(), "TextSize::from" | "TextSize::new") => match sm::tsc(&c.args[0]).trim_end_matches("u32").parse::<u32>() {
            Ok(k) => Inc::Const(k),
            Err(_) => Inc::Unknown(sm::tsc(e)),
        },
        syn::Expr::MethodCall(mc) if mc.method == "text_len" && mc.args.is_empty() => match &*mc.receiver {
            syn::Expr::Lit(l) => match &l.lit {
                syn::Lit::Char(c) => Inc::Const(c.value().len_utf8() as u32),
                syn::Lit::Str(st) => Inc::Const(st.value().len() as u32),
                _ => Inc::Unknown(sm::tsc(e)),
            },
            syn::Expr::Path(p) if p.path.get_ident().map_or(false, |i| char_vars.contains(&i.to_string())) => Inc::OfChar,
            _ => Inc::Unknown(sm::tsc(e)),
        },
        _ => Inc::Unknown(sm::tsc(e)),
    }
}

#[derive(Clone, Debug)]
struct NcState {
    w0: Slot,
    w1: Slot,
    slides: usize,
    incs: Vec<Inc>,
    vars: BTreeMap<String, Slot>,     // locals holding a window slot value
    char_vars: BTreeSet<String>,      // bindings of the consumed symbolic character
    ret: Option<Slot>,
    val: Option<Slot>,                // value of the expression evaluated last (for expression-valued arms)
}

/// three-valued match of a slot value against a normal-form pattern: Some(true/false), None = cannot tell
fn slot_matches(v: &Slot, p: &CPat) -> Option<bool> {
    match (v, p) {
        (_, CPat::Wild) => Some(true),
        (Slot::Unknown, _) => None,
        (Slot::Empty, CPat::NoneP) => Some(true),
        (Slot::Empty, _) => Some(false),
        (_, CPat::NoneP) => Some(false),
        (_, CPat::AnySome(_)) => Some(true),
        (Slot::Cr, CPat::Chars(cs)) => Some(cs.contains(&'\r')),
        (Slot::Lf, CPat::Chars(cs)) => Some(cs.contains(&'\n')),
        (Slot::NotLf, CPat::Chars(cs)) if cs.len() == 1 && cs.contains(&'\n') => Some(false),
        (Slot::Char, CPat::Chars(cs)) if cs.len() == 1 && cs.contains(&'\r') => Some(false),
        (Slot::Char, CPat::Chars(_)) | (Slot::NotLf, CPat::Chars(_)) => None,
        _ => None,
    }
}

fn nc_exec(stmts: &[&syn::Stmt], mut st: NcState) -> Result<NcState, String> {
    for s in stmts {
        match s {
            syn::Stmt::Local(l) => {
                let mut ids = vec![];
                sm::pat_idents(&l.pat, &mut ids);
                let init = l.init.as_ref().map(|i| sm::tsc(&i.expr)).unwrap_or_default();
                if ids.len() == 1 && init == "self.window[0]" {
                    st.vars.insert(ids[0].clone(), st.w0.clone());
                } else {
                    return Err(format!("unexpected let `{}`", sm::tsc(l)));
                }
            }
            syn::Stmt::Expr(e, semi) => {
                st.val = None;
                st = nc_exec_expr(e, st)?;
                if semi.is_none() {
                    // tail expression: the returned value
                    let t = sm::tsc(e);
                    if let Some(v) = st.vars.get(&t) {
                        st.ret = Some(v.clone());
                    } else if let Some(v) = st.val.clone() {
                        st.ret = Some(v);
                    }
                }
            }
            syn::Stmt::Macro(m) if m.mac.path.is_ident("debug_assert") => {}
            other => return Err(format!("unexpected statement `{}`", sm::tsc(other))),
        }
    }
    Ok(st)
}

fn nc_exec_expr(e: &syn::Expr, mut st: NcState) -> Result<NcState, String> {
    let t = sm::tsc(e);
    if t == "self.window.slide()" {
        st.slides += 1;
        st.w0 = std::mem::replace(&mut st.w1, Slot::Unknown);
        return Ok(st);
    }
    if let Some((scrut, brs)) = branches(e) {
        let v = if scrut == "self.window[0]" {
            st.w0.clone()
        } else if let Some(v) = st.vars.get(&scrut) {
            v.clone()
        } else {
            return Err(format!("decision on `{}`", scrut));
        };
        for b in &brs {
            if b.guard.is_some() {
                return Err("guarded arm".into());
            }
            match slot_matches(&v, &b.pat) {
                Some(true) => {
                    if let CPat::AnySome(Some(name)) = &b.pat {
                        if matches!(v, Slot::Char | Slot::NotLf) {
                            st.char_vars.insert(name.clone());
                        }
                    }
                    let mut st2 = nc_exec(&b.body, st)?;
                    if let Some(tl) = b.tail {
                        st2 = nc_exec_expr(tl, st2)?;
                    }
                    return Ok(st2);
                }
                Some(false) => continue,
                None => return Err(format!("cannot decide `{}` against {:?}", scrut, b.pat)),
            }
        }
        return Ok(st);
    }
    match e {
        syn::Expr::Block(b) => {
            let stmts: Vec<&syn::Stmt> = b.block.stmts.iter().collect();
            nc_exec(&stmts, st)
        }
        syn::Expr::Binary(b) if sm::tsc(&b.left) == "self.location" && matches!(b.op, syn::BinOp::AddAssign(_)) => {
            st.incs.push(inc_value(&b.right, &st.char_vars));
            Ok(st)
        }
        syn::Expr::Assign(a) => {
            let l = sm::tsc(&a.left);
            if st.vars.contains_key(&l) {
                let v = match sm::tsc(&a.right).as_str() {
                    "Some('\\n')" => Slot::Lf,
                    "Some('\\r')" => Slot::Cr,
                    "None" => Slot::Empty,
                    other => return Err(format!("assignment of `{}`", other)),
                };
                st.vars.insert(l, v);
                Ok(st)
            } else {
                Err(format!("assignment to `{}`", l))
            }
        }
        syn::Expr::Path(_) => {
            // a slot value: `None`, or a local holding a window slot
            if t == "None" {
                st.val = Some(Slot::Empty);
            } else if let Some(v) = st.vars.get(&t) {
                st.val = Some(v.clone());
            }
            Ok(st)
        }
        syn::Expr::Call(_) if t == "Some('\\n')" => {
            st.val = Some(Slot::Lf);
            Ok(st)
        }
        syn::Expr::Call(_) if t == "Some('\\r')" => {
            st.val = Some(Slot::Cr);
            Ok(st)
        }
        _ => Err(format!("unexpected expression `{}`", t.chars().take(80).collect::<String>())),
    }
}

struct NcPath {
    class: &'static str,
    slides: usize,
    consts: u32,
    of_char: usize,
    unknown: Vec<String>,
    ret: String,
}

fn next_char_paths(m: &syn::ImplItemFn) -> Result<Vec<NcPath>, String> {
    let scenarios: [(&'static str, Slot, Slot); 4] = [("cr,lf", Slot::Cr, Slot::Lf), ("cr,!lf", Slot::Cr, Slot::NotLf), ("char", Slot::Char, Slot::Unknown), ("none", Slot::Empty, Slot::Unknown)];
    let stmts: Vec<&syn::Stmt> = m.block.stmts.iter().collect();
    let mut out = vec![];
    for (class, w0, w1) in scenarios {
        let st = NcState { w0, w1, slides: 0, incs: vec![], vars: BTreeMap::new(), char_vars: BTreeSet::new(), ret: None, val: None };
        let end = nc_exec(&stmts, st).map_err(|e| format!("scenario [{}]: {}", class, e))?;
        let mut consts = 0;
        let mut of_char = 0;
        let mut unknown = vec![];
        for i in &end.incs {
            match i {
                Inc::Const(k) => consts += k,
                Inc::OfChar => of_char += 1,
                Inc::Unknown(t) => unknown.push(t.clone()),
            }
        }
        let ret = match end.ret {
            Some(Slot::Lf) => "Some('\\n')",
            Some(Slot::Cr) => "Some('\\r')",
            Some(Slot::Char) | Some(Slot::NotLf) => "the character",
            Some(Slot::Empty) => "None",
            _ => "?",
        };
        out.push(NcPath { class, slides: end.slides, consts, of_char, unknown, ret: ret.to_string() });
    }
    Ok(out)
}

// ================================================================== L1 lex_* ranges

const CONSUMERS: [&str; 12] = ["next_char", "radix_run", "take_number", "lex_number", "lex_number_radix", "lex_normal_number", "lex_string", "lex_identifier", "lex_comment", "lex_and_emit_comment", "eat_single_char", "eat_indentation"];

fn consuming_calls(b: &syn::Block) -> Vec<((usize, usize), String, bool)> {
    // (position, method, inside a `return` expression)
    struct V {
        out: Vec<((usize, usize), String, bool)>,
        in_return: usize,
    }
    impl<'a> syn::visit::Visit<'a> for V {
        fn visit_expr_return(&mut self, r: &'a syn::ExprReturn) {
            self.in_return += 1;
            syn::visit::visit_expr_return(self, r);
            self.in_return -= 1;
        }
        fn visit_expr_method_call(&mut self, mc: &'a syn::ExprMethodCall) {
            let m = mc.method.to_string();
            if CONSUMERS.contains(&m.as_str()) && sm::tsc(&mc.receiver) == "self" {
                self.out.push((span_pos(&mc.method), m, self.in_return > 0));
            }
            syn::visit::visit_expr_method_call(self, mc);
        }
    }
    use syn::visit::Visit;
    let mut v = V { out: vec![], in_return: 0 };
    v.visit_block(b);
    v.out
}

pub fn lex_fn_ranges(cx: &mut Ctx, rule: &str) {
    cx.rule(rule, "in every lex_* function, on every way to Ok((tok, TextRange::new(S, E))): S is get_pos() taken before any character is consumed (or the start_pos parameter, which every caller takes before consuming the radix prefix), and E is get_pos() taken after the last consumption with nothing consumed between taking E and returning; lex_identifier pushes every consumed character to the name");
    cx.floor(rule, 10);
    let Some(lx) = load_lexer(cx, rule) else { return };
    let fns = ["lex_identifier", "lex_number_radix", "lex_normal_number", "lex_string", "lex_comment"];
    for (f, cfg) in lexer_methods(&lx) {
        let fname = f.sig.ident.to_string();
        if !fns.contains(&fname.as_str()) {
            continue;
        }
        let cfgs = cfg.iter().map(|(n, p)| format!("{}{}", if *p { "" } else { "!" }, n)).collect::<Vec<_>>().join(",");
        let tag = if cfgs.is_empty() { fname.clone() } else { format!("{}[{}]", fname, cfgs) };
        let cons = consuming_calls(&f.block);
        // gets: let X = self.get_pos();
        let mut gets: BTreeMap<String, Vec<(usize, usize)>> = BTreeMap::new();
        struct LV<'b> {
            gets: &'b mut BTreeMap<String, Vec<(usize, usize)>>,
        }
        impl<'a, 'b> syn::visit::Visit<'a> for LV<'b> {
            fn visit_local(&mut self, l: &'a syn::Local) {
                if let Some(init) = &l.init {
                    if sm::tsc(&init.expr) == "self.get_pos()" {
                        let mut ids = vec![];
                        sm::pat_idents(&l.pat, &mut ids);
                        if let Some(id) = ids.first() {
                            self.gets.entry(id.clone()).or_default().push(span_pos(l));
                        }
                    }
                }
                syn::visit::visit_local(self, l);
            }
        }
        use syn::visit::Visit;
        LV { gets: &mut gets }.visit_block(&f.block);
        let params: Vec<String> = f
            .sig
            .inputs
            .iter()
            .filter_map(|a| if let syn::FnArg::Typed(t) = a { let mut ids = vec![]; sm::pat_idents(&t.pat, &mut ids); ids.first().cloned() } else { None })
            .collect();
        // every TextRange::new(S, E)
        let mut n = 0;
        let mut sites: Vec<(String, String, (usize, usize))> = vec![];
        sm::for_each_expr_in_block(&f.block, |e| {
            if let syn::Expr::Call(c) = e {
                if sm::tsc(&c.func) == "TextRange::new" && c.args.len() == 2 {
                    sites.push((sm::tsc(&c.args[0]), sm::tsc(&c.args[1]), span_pos(c)));
                }
            }
        });
        for (s, e, at) in sites {
            n += 1;
            let key = format!("{}/{}/range{}", rule, tag, n);
            let mut probs = vec![];
            // S
            if params.contains(&s) {
                // parameter: checked at call sites below
            } else {
                match gets.get(&s) {
                    None => probs.push(format!("start `{}` is not taken with get_pos()", s)),
                    Some(ps) => {
                        let sp = ps[0];
                        if let Some(c) = cons.iter().find(|c| !c.2 && c.0 < sp) {
                            probs.push(format!("start `{}` is taken after `{}` already consumed input", s, c.1));
                        }
                    }
                }
            }
            // E: the latest get_pos assignment before the site
            match gets.get(&e) {
                None => probs.push(format!("end `{}` is not taken with get_pos()", e)),
                Some(ps) => {
                    let ep = ps.iter().filter(|p| **p < at).max().copied();
                    match ep {
                        None => probs.push(format!("end `{}` is assigned after its use", e)),
                        Some(ep) => {
                            if let Some(c) = cons.iter().find(|c| c.0 > ep && c.0 < at) {
                                probs.push(format!("`{}` consumes input between taking the end `{}` and building the range", c.1, e));
                            }
                            // (in a `loop` the textual order says nothing about execution order)
                            let in_loop_fn = sm::tsx(&f.block).contains("loop{");
                            if !cons.iter().any(|c| c.0 < ep) && fname != "lex_number_radix" && !in_loop_fn {
                                probs.push(format!("end `{}` is taken before anything was consumed", e));
                            }
                        }
                    }
                }
            }
            if probs.is_empty() {
                cx.ok(rule, &format!("{}: TextRange::new({}, {})", tag, s, e));
            } else {
                cx.fail(rule, &key, &format!("{}:{}", lx.rel, at.0), &format!("{}: {}", tag, probs.join("; ")));
            }
        }
        if n == 0 && fname != "lex_comment" {
            cx.fail(rule, &format!("{}/{}/no-range", rule, tag), &lx.loc(f), "no TextRange::new(S, E) in a lex function");
        }
    }
    // lex_number: start_pos taken first; passed to lex_number_radix
    if let Some(f) = lexer_method(&lx, "lex_number") {
        let t = sm::tsx(&f.block);
        let first_is_start = matches!(f.block.stmts.first(), Some(syn::Stmt::Local(l)) if sm::tsc(l).starts_with("letstart_pos=self.get_pos()"));
        let calls = t.matches("self.lex_number_radix(start_pos,").count();
        if first_is_start && calls == 3 {
            cx.ok(rule, "lex_number: start_pos = get_pos() first; all three radix calls pass start_pos");
        } else {
            cx.fail(rule, &format!("{}/lex_number/start_pos", rule), &lx.loc(f), "lex_number does not take start_pos first and pass it to every lex_number_radix call");
        }
    } else {
        cx.anchor_missing(rule, "Lexer::lex_number");
    }
    // lex_identifier: every consumed char is pushed
    if let Some(f) = lexer_method(&lx, "lex_identifier") {
        let t = sm::tsx(&f.block);
        if t.contains("whileself.is_identifier_continuation(){name.push(self.next_char().unwrap());}") && t.matches("next_char").count() == 1 {
            cx.ok(rule, "lex_identifier: while is_identifier_continuation() { name.push(next_char().unwrap()) } is the only consumption");
        } else {
            cx.fail(rule, &format!("{}/lex_identifier/push", rule), &lx.loc(f), "lex_identifier consumes a character that is not pushed to the name (or has more than one consumption site)");
        }
    }
    // lex_string: start before prefix loop; prefix loop count = prefix_len
    if let Some(f) = lexer_method(&lx, "lex_string") {
        let t = sm::tsx(&f.block);
        if t.starts_with("{letstart_pos=self.get_pos();for_in0..u32::from(kind.prefix_len()){self.next_char();}letquote_char=self.next_char().unwrap();") {
            cx.ok(rule, "lex_string: start_pos first, then prefix_len() prefix characters, then the quote");
        } else {
            cx.fail(rule, &format!("{}/lex_string/prologue", rule), &lx.loc(f), "lex_string does not start with start_pos = get_pos(); prefix loop of prefix_len(); quote");
        }
    }
    // eat_single_char
    if let Some(f) = lexer_method(&lx, "eat_single_char") {
        let stmts: Vec<String> = f.block.stmts.iter().map(|s| sm::tsc(s)).collect();
        let ok = stmts.len() == 4 && stmts[0] == "lettok_start=self.get_pos();" && stmts[1].starts_with("self.next_char().unwrap_or_else(") && stmts[2] == "lettok_end=self.get_pos();" && stmts[3] == "self.emit((ty,TextRange::new(tok_start,tok_end)));";
        if ok {
            cx.ok(rule, "eat_single_char: start, one next_char, end, emit");
        } else {
            cx.fail(rule, &format!("{}/eat_single_char", rule), &lx.loc(f), "eat_single_char is not start = get_pos(); next_char(); end = get_pos(); emit((ty, TextRange::new(start, end)))");
        }
    } else {
        cx.anchor_missing(rule, "Lexer::eat_single_char");
    }
}

// ================================================================== O1 operator trie

#[derive(Clone, Debug)]
struct TState {
    k: usize,
    spelled: String,
    known: Vec<Option<char>>, // known upcoming chars (front = window[0])
    established: bool,        // window[0] is known to be Some(_)
    vars: BTreeMap<String, usize>,
    opaque: bool,
    ended: bool,
    cfg_full_lexer: bool,
    subst: BTreeMap<String, String>, // parameter -> argument text, inside an inlined helper
    returned: bool,                  // an inlined helper has returned normally
    depth: usize,
    nz: bool,                        // nesting == 0 has been excluded on this path (a diverging `if nesting == 0`)
}

#[derive(Clone, Debug)]
pub struct Emit {
    pub tok: String,
    pub spelled: String,
    pub s_ok: bool,
    pub e_ok: bool,
    pub line: usize,
    pub nesting_guard: Option<String>,
    pub full_lexer_only: bool,
}

#[derive(Default)]
pub struct ArmResult {
    pub emits: Vec<Emit>,
    pub errors: Vec<(String, usize)>, // (error kind text, consumed count)
    pub opaque_calls: Vec<String>,
    pub silent_paths: Vec<(String, usize)>, // paths ending without emit or error: (spelled, consumed)
    pub unrecognised: Vec<String>,
    pub nesting_ops: Vec<String>,
    /// assignments to `self.at_begin_of_line`: (nesting guard in force, assigned value, line)
    pub line_start_sets: Vec<(Option<String>, String, usize)>,
}

fn char_of_pat(p: &syn::Pat) -> Option<Vec<char>> {
    match p {
        syn::Pat::Lit(l) => {
            if let syn::Lit::Char(c) = &l.lit {
                Some(vec![c.value()])
            } else {
                None
            }
        }
        syn::Pat::Or(o) => {
            let mut v = vec![];
            for c in &o.cases {
                v.extend(char_of_pat(c)?);
            }
            Some(v)
        }
        syn::Pat::Paren(p) => char_of_pat(&p.pat),
        _ => None,
    }
}

fn some_char_pat(p: &syn::Pat) -> Option<Vec<char>> {
    if let syn::Pat::TupleStruct(ts) = p {
        if ts.path.is_ident("Some") && ts.elems.len() == 1 {
            return char_of_pat(&ts.elems[0]);
        }
    }
    None
}


// ------------------------------------------------------------------ branch normal form
//
// `if let P = S {A} else {B}`, `match S { P => A, _ => B }`, `if S == Some('x') {A} else {B}`, `if matches!(S, P) {A} else {B}`
// and `if S.is_none() {A} else {B}` are the same decision; `while let P = S {A}` and `loop { match S { P => A, _ => break } }`
// are the same loop. The interpreters below only ever see the normal form, so they do not depend on which spelling
// the lexer uses.

#[derive(Clone, Debug, PartialEq)]
pub enum CPat {
    /// Some(one of these characters)
    Chars(BTreeSet<char>),
    /// Some(_) / Some(binding)
    AnySome(Option<String>),
    NoneP,
    Wild,
    /// fixed-length window slice pattern [p0, p1, ..]
    Slice(Vec<CPat>),
    Other(String),
}

pub struct Branch<'a> {
    pub pat: CPat,
    pub guard: Option<&'a syn::Expr>,
    pub body: Vec<&'a syn::Stmt>,
    pub tail: Option<&'a syn::Expr>, // arm body that is a bare expression
}

fn opt_char_pat(p: &syn::Pat) -> CPat {
    match p {
        syn::Pat::Wild(_) => CPat::Wild,
        syn::Pat::Ident(i) if i.ident == "None" => CPat::NoneP,
        syn::Pat::Path(pp) if pp.path.is_ident("None") => CPat::NoneP,
        syn::Pat::Paren(pp) => opt_char_pat(&pp.pat),
        syn::Pat::TupleStruct(ts) if ts.path.is_ident("Some") && ts.elems.len() == 1 => match &ts.elems[0] {
            syn::Pat::Wild(_) => CPat::AnySome(None),
            syn::Pat::Ident(i) if i.subpat.is_none() => CPat::AnySome(Some(i.ident.to_string())),
            inner => match crate::rules::c06::pat_chars(inner) {
                Some(cs) => CPat::Chars(cs),
                None => CPat::Other(sm::tsc(p)),
            },
        },
        syn::Pat::Or(o) => {
            // Some('a') | Some('b') | None ...
            let mut set = BTreeSet::new();
            for c in &o.cases {
                match opt_char_pat(c) {
                    CPat::Chars(cs) => set.extend(cs),
                    _ => return CPat::Other(sm::tsc(p)),
                }
            }
            CPat::Chars(set)
        }
        syn::Pat::Slice(sl) => CPat::Slice(sl.elems.iter().map(opt_char_pat).collect()),
        _ => CPat::Other(sm::tsc(p)),
    }
}

fn opt_char_expr(e: &syn::Expr) -> Option<CPat> {
    // Some('x') / None / [Some('x'); 2]
    match e {
        syn::Expr::Call(c) if sm::tsc(&c.func) == "Some" && c.args.len() == 1 => tables::lit_char(&c.args[0]).map(|ch| CPat::Chars([ch].into_iter().collect())),
        syn::Expr::Path(p) if p.path.is_ident("None") => Some(CPat::NoneP),
        syn::Expr::Repeat(r) => {
            let n: usize = sm::tsc(&r.len).parse().ok()?;
            let one = opt_char_expr(&r.expr)?;
            Some(CPat::Slice(vec![one; n]))
        }
        syn::Expr::Array(a) => Some(CPat::Slice(a.elems.iter().map(|x| opt_char_expr(x)).collect::<Option<Vec<_>>>()?)),
        syn::Expr::Paren(p) => opt_char_expr(&p.expr),
        _ => None,
    }
}

/// A two-way test in normal form: (scrutinee text, pattern, negated).
pub fn test_of(cond: &syn::Expr) -> Option<(String, CPat, bool)> {
    match cond {
        syn::Expr::Paren(p) => test_of(&p.expr),
        syn::Expr::Let(l) => Some((sm::tsc(&l.expr), opt_char_pat(&l.pat), false)),
        syn::Expr::Unary(u) if matches!(u.op, syn::UnOp::Not(_)) => test_of(&u.expr).map(|(s, p, n)| (s, p, !n)),
        syn::Expr::Binary(b) if matches!(b.op, syn::BinOp::Eq(_) | syn::BinOp::Ne(_)) => {
            let neg = matches!(b.op, syn::BinOp::Ne(_));
            if let Some(p) = opt_char_expr(&b.right) {
                Some((sm::tsc(&b.left), p, neg))
            } else {
                opt_char_expr(&b.left).map(|p| (sm::tsc(&b.right), p, neg))
            }
        }
        syn::Expr::Macro(m) if m.mac.path.is_ident("matches") => {
            let parsed = m.mac.parse_body_with(|input: syn::parse::ParseStream| {
                let e: syn::Expr = input.parse()?;
                input.parse::<syn::Token![,]>()?;
                let p = syn::Pat::parse_multi_with_leading_vert(input)?;
                Ok((e, p))
            });
            parsed.ok().map(|(e, p)| (sm::tsc(&e), opt_char_pat(&p), false))
        }
        syn::Expr::MethodCall(mc) if mc.args.is_empty() && (mc.method == "is_none" || mc.method == "is_some") => {
            Some((sm::tsc(&mc.receiver), if mc.method == "is_none" { CPat::NoneP } else { CPat::AnySome(None) }, false))
        }
        _ => None,
    }
}

fn body_of<'a>(e: &'a syn::Expr) -> (Vec<&'a syn::Stmt>, Option<&'a syn::Expr>) {
    match e {
        syn::Expr::Block(b) => (b.block.stmts.iter().collect(), None),
        other => (vec![], Some(other)),
    }
}

/// Normal form of a decision on an `Option<char>` window slot: (scrutinee, branches). `None` if `e` is not such a decision.
pub fn branches<'a>(e: &'a syn::Expr) -> Option<(String, Vec<Branch<'a>>)> {
    match e {
        syn::Expr::Match(m) => {
            let mut out = vec![];
            for arm in &m.arms {
                let (body, tail) = body_of(&arm.body);
                out.push(Branch { pat: opt_char_pat(&arm.pat), guard: arm.guard.as_ref().map(|g| &*g.1), body, tail });
            }
            Some((sm::tsc(&m.expr), out))
        }
        syn::Expr::If(i) => {
            let (scrut, pat, neg) = test_of(&i.cond)?;
            let then_b = Branch { pat: pat.clone(), guard: None, body: i.then_branch.stmts.iter().collect(), tail: None };
            let (eb, et) = match &i.else_branch {
                Some((_, el)) => body_of(el),
                None => (vec![], None),
            };
            let else_b = Branch { pat: CPat::Wild, guard: None, body: eb, tail: et };
            if neg {
                // if S != P {A} else {B}  ==  match S { P => B, _ => A }
                Some((scrut, vec![Branch { pat, guard: None, body: else_b.body, tail: else_b.tail }, Branch { pat: CPat::Wild, guard: None, body: then_b.body, tail: None }]))
            } else {
                Some((scrut, vec![then_b, else_b]))
            }
        }
        _ => None,
    }
}

/// Normal form of a skipping loop: `while let P = S { body }` / `loop { match S { P => body, _ => break } }` /
/// `while matches!(S, P) { body }`: (scrutinee, pattern, body).
pub fn skip_loop(e: &syn::Expr) -> Option<(String, CPat, Vec<String>)> {
    // body as compact statement texts (a bare-expression arm is one statement)
    match e {
        syn::Expr::While(w) => {
            let (s, p, neg) = test_of(&w.cond)?;
            if neg {
                return None;
            }
            Some((s, p, w.body.stmts.iter().map(|x| sm::tsc(x)).collect()))
        }
        syn::Expr::Loop(l) => {
            if l.body.stmts.len() != 1 {
                return None;
            }
            let inner = match &l.body.stmts[0] {
                syn::Stmt::Expr(x, _) => x,
                _ => return None,
            };
            let (s, brs) = branches(inner)?;
            if brs.len() != 2 {
                return None;
            }
            let is_break = |b: &Branch| (b.body.len() == 1 && sm::tsc(b.body[0]).trim_end_matches(';') == "break") || b.tail.map_or(false, |t| sm::tsc(t) == "break");
            if is_break(&brs[1]) && matches!(brs[1].pat, CPat::Wild) && !is_break(&brs[0]) {
                let mut body: Vec<String> = brs[0].body.iter().map(|x| sm::tsc(*x)).collect();
                if let Some(t) = brs[0].tail {
                    body.push(sm::tsc(t));
                }
                Some((s, brs[0].pat.clone(), body))
            } else {
                None
            }
        }
        _ => None,
    }
}

thread_local! {
    /// the lexer's methods, for inlining private helpers called from the interpreted arms
    static LEXER_FNS: std::cell::RefCell<BTreeMap<String, syn::ImplItemFn>> = std::cell::RefCell::new(BTreeMap::new());
}

fn register_lexer(lx: &Src) {
    LEXER_FNS.with(|r| {
        let mut m = r.borrow_mut();
        m.clear();
        for (f, _) in lexer_methods(lx) {
            m.insert(f.sig.ident.to_string(), f.clone());
        }
    });
}

fn interp_block(stmts: &[&syn::Stmt], states: Vec<TState>, res: &mut ArmResult, guard: &Option<String>) -> Vec<TState> {
    let mut cur = states;
    for s in stmts {
        let mut next = vec![];
        for st in cur {
            if st.ended || st.returned {
                next.push(st);
                continue;
            }
            next.extend(interp_stmt(s, st, res, guard));
        }
        cur = next;
    }
    cur
}

fn consume(st: &mut TState) -> bool {
    // returns false if nothing is known to be present
    let c = if !st.known.is_empty() { st.known.remove(0) } else { None };
    match c {
        Some(ch) => {
            st.spelled.push(ch);
            st.k += 1;
            st.established = !st.known.is_empty() && st.known[0].is_some();
            true
        }
        None => {
            let was = st.established;
            st.spelled.push('\u{fffd}');
            st.k += 1;
            st.established = false;
            was
        }
    }
}

fn subst(st: &TState, text: String) -> String {
    st.subst.get(&text).cloned().unwrap_or(text)
}

fn interp_stmt(s: &syn::Stmt, mut st: TState, res: &mut ArmResult, guard: &Option<String>) -> Vec<TState> {
    let full_lexer_gated = |attrs: &[syn::Attribute]| sm::cfg_features(attrs).iter().any(|(f, p)| f == "full-lexer" && *p);
    match s {
        syn::Stmt::Local(l) => {
            let gated = full_lexer_gated(&l.attrs);
            let mut ids = vec![];
            sm::pat_idents(&l.pat, &mut ids);
            let init = l.init.as_ref().map(|i| sm::tsc(&i.expr)).unwrap_or_default();
            if init == "self.get_pos()" {
                if let Some(id) = ids.first() {
                    if !gated || !st.vars.contains_key(id) {
                        st.vars.insert(id.clone(), st.k);
                    }
                }
                return vec![st];
            }
            if init == "self.next_char()" {
                // let c = self.next_char();
                if !consume(&mut st) {
                    res.unrecognised.push("next_char() with no character established".into());
                }
                return vec![st];
            }
            // let x = self.lex_*()?;
            if init.starts_with("self.lex_") {
                st.opaque = true;
                res.opaque_calls.push(init);
                return vec![st];
            }
            // `let tok = <decision whose paths end in a token value>;`: the paths are followed, each binds the local
            if let (Some(i), [id]) = (l.init.as_ref(), ids.as_slice()) {
                if matches!(&*i.expr, syn::Expr::Match(_) | syn::Expr::If(_) | syn::Expr::Block(_)) {
                    let before = res.unrecognised.len();
                    let outs = interp_expr(&i.expr, st.clone(), res, guard, false);
                    let mut ok = res.unrecognised.len() == before;
                    let mut bound = vec![];
                    for mut o in outs {
                        if o.ended || o.returned {
                            bound.push(o);
                            continue;
                        }
                        match o.subst.remove("\u{0}value") {
                            Some(v) => {
                                o.subst.insert(id.clone(), v);
                                bound.push(o);
                            }
                            None => ok = false,
                        }
                    }
                    if ok {
                        return bound;
                    }
                    res.unrecognised.truncate(before);
                }
            }
            res.unrecognised.push(format!("let {}", init));
            vec![st]
        }
        syn::Stmt::Expr(e, _) => interp_expr(e, st, res, guard, false),
        syn::Stmt::Macro(m) => {
            if m.mac.path.is_ident("debug_assert") || m.mac.path.is_ident("debug_assert_eq") {
                return vec![st];
            }
            res.unrecognised.push(format!("macro {}", sm::tsc(&m.mac.path)));
            vec![st]
        }
        syn::Stmt::Item(_) => vec![st],
    }
}

fn run_branch(b: &Branch, st: TState, res: &mut ArmResult, guard: &Option<String>) -> Vec<TState> {
    let mut out = interp_block(&b.body, vec![st], res, guard);
    if let Some(t) = b.tail {
        let mut next = vec![];
        for s2 in out {
            if s2.ended || s2.returned {
                next.push(s2);
            } else {
                next.extend(interp_expr(t, s2, res, guard, false));
            }
        }
        out = next;
    }
    out
}

fn interp_expr(e: &syn::Expr, mut st: TState, res: &mut ArmResult, guard: &Option<String>, gated: bool) -> Vec<TState> {
    let t = sm::tsx(e);
    // ---- decisions on the character window, in normal form
    if let Some((scrut, pat, body)) = skip_loop(e) {
        let only_next_char = body.len() == 1 && body[0].trim_end_matches(';') == "self.next_char()";
        if scrut == "self.window[0]" && only_next_char && matches!(pat, CPat::Chars(_)) {
            st.spelled.push('*');
            st.known = vec![];
            st.established = false;
            return vec![st];
        }
        res.unrecognised.push(format!("loop on {}", scrut));
        return vec![st];
    }
    if let Some((scrut, brs)) = branches(e) {
        if scrut == "self.window[0]" || scrut == "self.window[1]" || scrut == "self.window[..2]" || scrut == "self.window[..3]" {
            let mut out = vec![];
            for b in &brs {
                let mut s2 = st.clone();
                if b.guard.is_some() {
                    res.unrecognised.push(format!("guarded arm on {}", scrut));
                }
                if scrut == "self.window[1]" {
                    // look-ahead only: no state change
                } else {
                    match &b.pat {
                        CPat::Chars(cs) => {
                            s2.known = if cs.len() == 1 { vec![Some(*cs.iter().next().unwrap())] } else { vec![] };
                            s2.established = true;
                        }
                        CPat::AnySome(_) => {
                            s2.known = vec![];
                            s2.established = true;
                        }
                        CPat::Slice(ps) => {
                            let mut kn = vec![];
                            for p in ps {
                                match p {
                                    CPat::Chars(cs) if cs.len() == 1 => kn.push(Some(*cs.iter().next().unwrap())),
                                    _ => break,
                                }
                            }
                            s2.established = matches!(ps.first(), Some(CPat::Chars(_)) | Some(CPat::AnySome(_)));
                            s2.known = kn;
                        }
                        CPat::NoneP | CPat::Wild => {
                            s2.known = vec![];
                            s2.established = false;
                        }
                        CPat::Other(p) => {
                            res.unrecognised.push(format!("match arm pattern {}", p));
                        }
                    }
                }
                out.extend(run_branch(b, s2, res, guard));
            }
            return out;
        }
    }
    match e {
        syn::Expr::MethodCall(mc) if sm::tsc(&mc.receiver) == "self" => {
            let m = mc.method.to_string();
            let attrs_gated = gated;
            match m.as_str() {
                "next_char" => {
                    if !consume(&mut st) {
                        res.unrecognised.push("next_char() with no character established".into());
                    }
                    vec![st]
                }
                "get_pos" => vec![st],
                "eat_single_char" => {
                    let tok = subst(&st, sm::tsc(&mc.args[0])).trim_start_matches("Tok::").to_string();
                    let s_at = st.k;
                    if !consume(&mut st) {
                        res.unrecognised.push("eat_single_char with no character established".into());
                    }
                    res.emits.push(Emit { tok, spelled: st.spelled.clone(), s_ok: s_at == 0, e_ok: true, line: sm::line(mc.method.span()), nesting_guard: guard.clone(), full_lexer_only: attrs_gated || st.cfg_full_lexer });
                    vec![st]
                }
                "emit" => {
                    // self.emit((Tok::X {..}?, TextRange::new(a, b))) or self.emit(var)
                    let arg = &mc.args[0];
                    if let syn::Expr::Tuple(tp) = arg {
                        if tp.elems.len() == 2 {
                            let tok_t = subst(&st, sm::tsc(&tp.elems[0]));
                            let tok: String = tok_t.trim_start_matches("Tok::").chars().take_while(|c| c.is_alphanumeric()).collect();
                            let (mut s_ok, mut e_ok) = (false, false);
                            if let syn::Expr::Call(c) = &tp.elems[1] {
                                if sm::tsc(&c.func) == "TextRange::new" && c.args.len() == 2 {
                                    let pos_of = |x: &syn::Expr, st: &TState| -> Option<usize> {
                                        let t = sm::tsc(x);
                                        if t == "self.get_pos()" {
                                            Some(st.k)
                                        } else {
                                            st.vars.get(&t).copied()
                                        }
                                    };
                                    s_ok = pos_of(&c.args[0], &st) == Some(0);
                                    e_ok = pos_of(&c.args[1], &st) == Some(st.k);
                                }
                            }
                            res.emits.push(Emit { tok, spelled: st.spelled.clone(), s_ok, e_ok, line: sm::line(mc.method.span()), nesting_guard: guard.clone(), full_lexer_only: attrs_gated || st.cfg_full_lexer });
                            st.ended = false;
                            return vec![st];
                        }
                    }
                    if st.opaque {
                        // emit of an opaque lex_* result
                        return vec![st];
                    }
                    res.unrecognised.push(format!("emit({})", sm::tsc(arg)));
                    vec![st]
                }
                other => {
                    if other.starts_with("lex_") {
                        st.opaque = true;
                        res.opaque_calls.push(t.text.clone());
                        return vec![st];
                    }
                    // a private helper of the lexer: interpret its body in place
                    let callee = LEXER_FNS.with(|r| r.borrow().get(other).cloned());
                    if let (Some(f), true) = (callee, st.depth < 3) {
                        let params: Vec<String> = f.sig.inputs.iter().filter_map(|a| if let syn::FnArg::Typed(pt) = a { Some(sm::tsc(&pt.pat)) } else { None }).collect();
                        let saved_subst = st.subst.clone();
                        let saved_vars = st.vars.clone();
                        for (p, a) in params.iter().zip(mc.args.iter()) {
                            let at = subst(&st, sm::tsc(a));
                            st.subst.insert(p.clone(), at);
                        }
                        st.depth += 1;
                        let stmts: Vec<&syn::Stmt> = f.block.stmts.iter().collect();
                        let outs = interp_block(&stmts, vec![st], res, guard);
                        return outs
                            .into_iter()
                            .map(|mut o| {
                                o.returned = false;
                                o.depth -= 1;
                                o.subst = saved_subst.clone();
                                // positions taken in the helper stay valid only there
                                let k_vars: BTreeMap<String, usize> = saved_vars.clone();
                                o.vars = k_vars;
                                o
                            })
                            .collect();
                    }
                    res.unrecognised.push(format!("self.{}()", other));
                    vec![st]
                }
            }
        }
        syn::Expr::Try(tr) => interp_expr(&tr.expr, st, res, guard, gated),
        syn::Expr::Paren(p) => interp_expr(&p.expr, st, res, guard, gated),
        syn::Expr::If(i) => {
            let c = sm::tsc(&i.cond);
            let then_st = st.clone();
            let else_st = st.clone();
            let mut guard_then = guard.clone();
            let mut guard_else = guard.clone();
            if c == "self.nesting==0" || c == "0==self.nesting" {
                guard_then = Some("nesting==0".into());
                guard_else = Some("nesting!=0".into());
            } else if c == "self.nesting!=0" || c == "self.nesting>0" || c == "0!=self.nesting" {
                guard_then = Some("nesting!=0".into());
                guard_else = Some("nesting==0".into());
            } else if c == "is_emoji_presentation(c)" {
                // both branches keep the established char
            } else {
                res.unrecognised.push(format!("if {}", c));
            }
            let then_stmts: Vec<&syn::Stmt> = i.then_branch.stmts.iter().collect();
            let mut out = interp_block(&then_stmts, vec![then_st], res, &guard_then);
            let then_diverges = out.iter().all(|s| s.ended);
            let mut else_st = else_st;
            if guard_then.as_deref() == Some("nesting==0") && guard.as_deref() != Some("nesting==0") {
                else_st.nz = true;
            }
            let _ = then_diverges;
            match &i.else_branch {
                Some((_, el)) => out.extend(interp_body(el, else_st, res, &guard_else)),
                None => out.push(else_st),
            }
            out
        }
        syn::Expr::Block(b) => {
            let stmts: Vec<&syn::Stmt> = b.block.stmts.iter().collect();
            interp_block(&stmts, vec![st], res, guard)
        }
        syn::Expr::Return(r) => {
            let rt = r.expr.as_ref().map(|x| sm::tsc(x)).unwrap_or_default();
            if rt.starts_with("Err(") {
                let kind = rt.split("LexicalErrorType::").nth(1).map(|s| s.chars().take_while(|c| c.is_alphanumeric()).collect::<String>()).unwrap_or_default();
                res.errors.push((kind, st.k));
                st.ended = true;
                return vec![st];
            }
            if rt.starts_with("Ok(") && st.depth > 0 {
                st.returned = true;
                return vec![st];
            }
            res.unrecognised.push(format!("return {}", rt));
            st.ended = true;
            vec![st]
        }
        syn::Expr::Call(c) if sm::tsc(&c.func) == "Ok" && st.depth > 0 => {
            // tail `Ok(())` of an inlined helper
            st.returned = true;
            vec![st]
        }
        syn::Expr::Call(c) if sm::tsc(&c.func) == "Err" => {
            let rt = t.text.clone();
            let kind = rt.split("LexicalErrorType::").nth(1).map(|s| s.chars().take_while(|c| c.is_alphanumeric()).collect::<String>()).unwrap_or_default();
            res.errors.push((kind, st.k));
            st.ended = true;
            vec![st]
        }
        syn::Expr::Binary(b) if sm::tsc(&b.left) == "self.nesting" => {
            res.nesting_ops.push(format!("{}@{}@{}{}", sm::ts(&b.op), st.k, sm::line(syn::spanned::Spanned::span(&b.op)), if st.nz { "/nz" } else { "" }));
            vec![st]
        }
        syn::Expr::Assign(a) if sm::tsc(&a.left) == "self.at_begin_of_line" => {
            res.line_start_sets.push((guard.clone(), sm::tsc(&a.right), sm::line(syn::spanned::Spanned::span(&a.eq_token))));
            vec![st]
        }
        // a token value at the end of a path of `let tok = match .. { .. }` (see interp_stmt)
        syn::Expr::Path(_) if subst(&st, t.text.clone()).starts_with("Tok::") => {
            // (a parameter of an inlined helper stands for the token its caller passed)
            let v = subst(&st, t.text.clone());
            st.subst.insert("\u{0}value".to_string(), v);
            vec![st]
        }
        _ => {
            res.unrecognised.push(t.text);
            vec![st]
        }
    }
}

fn interp_body(e: &syn::Expr, st: TState, res: &mut ArmResult, guard: &Option<String>) -> Vec<TState> {
    match e {
        syn::Expr::Block(b) => {
            let stmts: Vec<&syn::Stmt> = b.block.stmts.iter().collect();
            interp_block(&stmts, vec![st], res, guard)
        }
        other => interp_expr(other, st, res, guard, false),
    }
}

/// Interpret one arm of consume_character. `chars` are the arm's pattern characters.
pub fn interp_arm(arm: &syn::Arm) -> (Vec<char>, ArmResult) {
    let chars: Vec<char> = crate::rules::c06::pat_chars(&arm.pat).map(|s| s.into_iter().collect()).unwrap_or_default();
    let mut res = ArmResult::default();
    let st = TState {
        k: 0,
        spelled: String::new(),
        known: if chars.len() == 1 { vec![Some(chars[0])] } else { vec![] },
        established: true,
        vars: BTreeMap::new(),
        opaque: false,
        ended: false,
        cfg_full_lexer: false,
        subst: BTreeMap::new(),
        returned: false,
        depth: 0,
        nz: false,
    };
    // statements carrying #[cfg(feature = "full-lexer")] are interpreted with the flag set
    let owned: Vec<syn::Stmt> = match &*arm.body {
        syn::Expr::Block(b) => b.block.stmts.clone(),
        other => vec![syn::Stmt::Expr(other.clone(), None)],
    };
    let stmts: Vec<&syn::Stmt> = owned.iter().collect();
    let ends = interp_block(&stmts, vec![st], &mut res, &None);
    // paths that end without emit/error
    let emitted_spellings: BTreeSet<String> = res.emits.iter().map(|e| e.spelled.clone()).collect();
    for e in ends {
        if !e.ended && !e.opaque && !emitted_spellings.contains(&e.spelled) {
            res.silent_paths.push((e.spelled.clone(), e.k));
        }
    }
    (chars, res)
}

pub fn consume_character_arms(lx: &Src) -> Option<(&syn::ImplItemFn, &syn::ExprMatch)> {
    register_lexer(lx);
    let f = lexer_method(lx, "consume_character")?;
    let m = f.block.stmts.iter().find_map(|s| if let syn::Stmt::Expr(syn::Expr::Match(m), _) = s { Some(m) } else { None })?;
    Some((f, m))
}

pub fn operator_trie(cx: &mut Ctx, rule: &str) {
    cx.rule(rule, "abstract execution of every arm of Lexer::consume_character: along every path to an emit of an operator token the start is get_pos() before the first consumed character, the end is get_pos() after the last one, nothing is consumed between taking the end and the emit, the characters established-then-consumed spell exactly the Python 3.11 spelling of the emitted token, and the set of (token, spelling) pairs equals the reference operator table (so longest match holds and no operator is missing)");
    cx.floor(rule, 47);
    let Some(lx) = load_lexer(cx, rule) else { return };
    let refd = match tables::refdata(&cx.verif, "py311_tokens.json") {
        Ok(v) => v,
        Err(e) => return cx.anchor_missing(rule, &e),
    };
    cx.refdata.insert("py311_tokens.json".into());
    let token = match sm::load(&cx.repo, "parser/src/token.rs") {
        Ok(t) => t,
        Err(e) => return cx.anchor_missing(rule, &e),
    };
    let display = tables::tok_display(&token);
    // spelling -> Tok variant via Display ('..' stripped)
    let mut variant_of: BTreeMap<String, String> = BTreeMap::new();
    for (v, d) in &display {
        if d.starts_with('\'') && d.ends_with('\'') && d.len() >= 3 {
            variant_of.insert(d[1..d.len() - 1].to_string(), v.clone());
        }
    }
    let ref_ops = tables::str_map(&refd["operators"]);
    let Some((f, m)) = consume_character_arms(&lx) else { return cx.anchor_missing(rule, "Lexer::consume_character match") };
    if sm::tsc(&m.expr) != "c" {
        cx.fail(rule, &format!("{}/scrutinee", rule), &lx.loc(f), "consume_character does not dispatch on its character parameter");
    }
    let mut found: BTreeMap<String, String> = BTreeMap::new(); // spelling -> tok
    for arm in &m.arms {
        let (chars, res) = interp_arm(arm);
        let arm_name: String = if chars.is_empty() { sm::tsc(&arm.pat) } else { chars.iter().map(|c| c.escape_default().to_string()).collect::<Vec<_>>().join("|") };
        let is_op_arm = chars.len() == 1 && ref_ops.keys().any(|k| k.starts_with(chars[0]));
        if !is_op_arm {
            // non-operator arm: must not emit an operator token through a literal emit
            for e in &res.emits {
                if variant_of.values().any(|v| *v == e.tok) && ref_ops.contains_key(variant_of.iter().find(|(_, v)| **v == e.tok).map(|(k, _)| k.as_str()).unwrap_or("")) {
                    cx.fail(rule, &format!("{}/arm/{}/stray-{}", rule, arm_name, e.tok), &format!("{}:{}", lx.rel, e.line), &format!("arm `{}` emits operator token {}", arm_name, e.tok));
                }
                // any token an arm emits itself (the one-character NAME of an emoji, the Newline) brackets exactly the
                // characters the arm consumed
                if e.s_ok && e.e_ok {
                    cx.ok(rule, &format!("arm `{}`: Tok::{} spans the characters consumed for it", arm_name, e.tok));
                } else {
                    cx.fail(rule, &format!("{}/arm/{}/range-{}", rule, arm_name, e.tok), &format!("{}:{}", lx.rel, e.line), &format!("arm `{}` emits Tok::{} with a range whose {}: the token does not cover the text it was lexed from", arm_name, e.tok, if !e.s_ok { "start is not get_pos() taken before the first consumed character" } else { "end is not get_pos() taken after the last consumed character" }));
                }
            }
            continue;
        }
        for u in &res.unrecognised {
            cx.fail(rule, &format!("{}/arm/{}/unrecognised", rule, arm_name), &lx.loc(&arm.pat), &format!("operator arm `{}` contains a construct the trie interpreter does not know: {}", arm_name, u));
        }
        for (sp, k) in &res.silent_paths {
            cx.fail(rule, &format!("{}/arm/{}/silent/{}", rule, arm_name, sp), &lx.loc(&arm.pat), &format!("a path of arm `{}` consumes {} character(s) (`{}`) and produces neither a token nor an error", arm_name, k, sp));
        }
        for e in &res.emits {
            let key = format!("{}/{}", rule, e.tok);
            let mut probs = vec![];
            if !e.s_ok {
                probs.push("the start is not get_pos() taken before the first consumed character".to_string());
            }
            if !e.e_ok {
                probs.push("the end is not get_pos() taken after the last consumed character".to_string());
            }
            match variant_of.get(&e.spelled) {
                Some(v) if *v == e.tok => {}
                Some(v) => probs.push(format!("the consumed characters spell `{}`, which is Tok::{}", e.spelled, v)),
                None => probs.push(format!("the consumed characters spell `{}`, which is no token spelling", e.spelled)),
            }
            if let Some(prev) = found.get(&e.spelled) {
                if *prev != e.tok {
                    probs.push(format!("`{}` also yields Tok::{}", e.spelled, prev));
                }
            }
            found.insert(e.spelled.clone(), e.tok.clone());
            if probs.is_empty() {
                cx.ok(rule, &format!("`{}` -> Tok::{}", e.spelled, e.tok));
            } else {
                cx.fail(rule, &key, &format!("{}:{}", lx.rel, e.line), &format!("emit of Tok::{} after consuming `{}`: {}", e.tok, e.spelled, probs.join("; ")));
            }
        }
    }
    for (sp, cname) in &ref_ops {
        if !found.contains_key(sp) {
            cx.fail(rule, &format!("{}/missing/{}", rule, sp), &lx.loc(f), &format!("no path of consume_character produces the operator `{}` ({})", sp, cname));
        }
    }
    for (sp, tok) in &found {
        if !ref_ops.contains_key(sp) {
            cx.fail(rule, &format!("{}/extra/{}", rule, sp), &lx.loc(f), &format!("consume_character produces Tok::{} for `{}`, which is not a Python operator", tok, sp));
        }
    }
}

// ================================================================== indentation / newline / queue discipline

fn method_block_text(lx: &Src, name: &str) -> Option<String> {
    lexer_method(lx, name).map(|m| sm::tsc(&m.block))
}

/// Compact statement texts of a block in which every immutable local bound to `self.get_pos()` is replaced by that
/// call (and its `let` dropped): `let p = self.get_pos(); emit(.., p)` and `emit(.., self.get_pos())` read the same.
/// Sound for comparison as long as nothing is consumed between the `let` and the use, which the byte-accounting
/// and range rules check separately.
fn stmts_with_positions_inlined(stmts: &[syn::Stmt], outer: &[String]) -> Vec<String> {
    let mut pos_locals: Vec<String> = outer.to_vec();
    let mut out = vec![];
    for st in stmts {
        if let syn::Stmt::Local(l) = st {
            if let (Some(init), syn::Pat::Ident(pi)) = (&l.init, &l.pat) {
                if pi.mutability.is_none() && sm::tsc(&init.expr) == "self.get_pos()" {
                    pos_locals.push(pi.ident.to_string());
                    continue;
                }
            }
        }
        let c = sm::tsx(st);
        let mut text = String::new();
        for tk in &c.toks {
            if pos_locals.contains(tk) {
                text.push_str("self.get_pos()");
            } else {
                text.push_str(tk);
            }
        }
        out.push(text);
    }
    out
}

/// I1/I3: Indent/Dedent pairing with the indentation stack.
pub fn indent_pairing(cx: &mut Ctx, rule: &str) {
    cx.rule(rule, "every indentations.push is immediately followed by one emit(Indent) and every indentations.pop by one emit(Dedent) in the same block; Indent/Dedent are emitted only from handle_indentations (after the `nesting != 0 => return` test) and from the end-of-input flush `while !indentations.is_empty()`; the Indent range is tok_pos - spaces - tabs .. tok_pos and Dedent ranges are empty at the current position; the stack never pops its base level");
    cx.floor(rule, 7);
    let Some(lx) = load_lexer(cx, rule) else { return };
    let mut push_blocks = 0;
    let mut pop_blocks = 0;
    for (f, _) in lexer_methods(&lx) {
        let fname = f.sig.ident.to_string();
        // walk all blocks; inspect adjacent statement pairs
        struct BV<'a> {
            blocks: Vec<&'a syn::Block>,
        }
        impl<'a> syn::visit::Visit<'a> for BV<'a> {
            fn visit_block(&mut self, b: &'a syn::Block) {
                self.blocks.push(b);
                syn::visit::visit_block(self, b);
            }
        }
        use syn::visit::Visit;
        let mut bv = BV { blocks: vec![] };
        bv.visit_block(&f.block);
        // the local holding the measured indentation: `let X = self.eat_indentation()?;`
        let mut indent_local = "indentation_level".to_string();
        sm::for_each_stmt_in_block(&f.block, &mut |st| {
            if let syn::Stmt::Local(l) = st {
                if let (Some(init), syn::Pat::Ident(pi)) = (&l.init, &l.pat) {
                    if sm::tsc(&init.expr) == "self.eat_indentation()?" {
                        indent_local = pi.ident.to_string();
                    }
                }
            }
        });
        // immutable locals of this function that hold `self.get_pos()`
        let mut fn_pos_locals: Vec<String> = vec![];
        sm::for_each_stmt_in_block(&f.block, &mut |st| {
            if let syn::Stmt::Local(l) = st {
                if let (Some(init), syn::Pat::Ident(pi)) = (&l.init, &l.pat) {
                    if pi.mutability.is_none() && sm::tsc(&init.expr) == "self.get_pos()" {
                        fn_pos_locals.push(pi.ident.to_string());
                    }
                }
            }
        });
        for b in bv.blocks {
            // statement texts with position locals (`let x = self.get_pos();`) replaced by the call they hold
            let ts: Vec<String> = stmts_with_positions_inlined(&b.stmts, &fn_pos_locals);
            for (i, t) in ts.iter().enumerate() {
                let is_push = t.starts_with("self.indentations.push(");
                let is_pop = t == "self.indentations.pop();";
                let emits_indent = t.starts_with("self.emit((Tok::Indent,");
                let emits_dedent = t.starts_with("self.emit((Tok::Dedent,");
                if is_push {
                    push_blocks += 1;
                    let follow: Vec<&String> = ts[i + 1..].iter().take(2).collect();
                    let ok = follow.iter().any(|x| x.contains("self.emit((Tok::Indent,")) && ts.iter().filter(|x| x.contains("self.emit((Tok::Indent,")).count() == 1;
                    if ok && fname == "handle_indentations" {
                        cx.ok(rule, &format!("{}: push followed by emit(Indent)", fname));
                    } else {
                        cx.fail(rule, &format!("{}/push/{}", rule, fname), &lx.loc(f), "indentations.push is not followed by exactly one emit(Indent) in handle_indentations");
                    }
                }
                if is_pop {
                    pop_blocks += 1;
                    let follow: Vec<&String> = ts[i + 1..].iter().take(2).collect();
                    let ok = follow.iter().any(|x| x.contains("self.emit((Tok::Dedent,")) && ts.iter().filter(|x| x.contains("self.emit((Tok::Dedent,")).count() == 1;
                    if ok && (fname == "handle_indentations" || fname == "consume_normal") {
                        cx.ok(rule, &format!("{}: pop followed by emit(Dedent)", fname));
                    } else {
                        cx.fail(rule, &format!("{}/pop/{}", rule, fname), &lx.loc(f), "indentations.pop is not followed by exactly one emit(Dedent)");
                    }
                }
                if emits_indent && !(i > 0 && ts[..i].iter().rev().take(2).any(|x| x.starts_with("self.indentations.push("))) {
                    cx.fail(rule, &format!("{}/indent-without-push/{}", rule, fname), &lx.loc(f), "emit(Indent) without a preceding indentations.push");
                }
                if emits_dedent && !(i > 0 && ts[..i].iter().rev().take(2).any(|x| x == "self.indentations.pop();")) {
                    cx.fail(rule, &format!("{}/dedent-without-pop/{}", rule, fname), &lx.loc(f), "emit(Dedent) without a preceding indentations.pop");
                }
                let il = &indent_local;
                if emits_indent && !t.contains(&format!("TextRange::new(self.get_pos()-TextSize::new({il}.spaces)-TextSize::new({il}.tabs),self.get_pos())")) && !t.contains(&format!("TextRange::new(self.get_pos()-TextSize::new({il}.spaces)-TextSize::new({il}.tabs),self.get_pos())")) {
                    cx.fail(rule, &format!("{}/indent-range", rule), &lx.loc(f), "the Indent range is not tok_pos - spaces - tabs .. tok_pos");
                }
                if emits_dedent && !t.contains("TextRange::empty(self.get_pos())") {
                    cx.fail(rule, &format!("{}/dedent-range/{}", rule, fname), &lx.loc(f), "a Dedent range is not TextRange::empty(tok_pos)");
                }
            }
        }
    }
    if push_blocks != 1 || pop_blocks != 2 {
        cx.fail(rule, &format!("{}/counts", rule), &lx.rel, &format!("{} push sites and {} pop sites (1 and 2 expected)", push_blocks, pop_blocks));
    }
    // handle_indentations: nesting test first
    match lexer_method(&lx, "handle_indentations").map(|m| sm::tsx(&m.block)) {
        Some(t) => {
            if t.starts_with("{letindentation_level=self.eat_indentation()?;ifself.nesting!=0{returnOk(());}") {
                cx.ok(rule, "handle_indentations: `if nesting != 0 { return }` precedes every Indent/Dedent");
            } else {
                cx.fail(rule, &format!("{}/nesting-first", rule), &lx.rel, "handle_indentations does not test `nesting != 0 => return` before comparing indentation");
            }
        }
        None => cx.anchor_missing(rule, "Lexer::handle_indentations"),
    }
    // EOF flush
    match method_block_text(&lx, "consume_normal") {
        Some(t) => {
            let t = t.replace("TextRange::empty(self.get_pos())", "TextRange::empty(tok_pos)");
            if t.contains("while!self.indentations.is_empty(){self.indentations.pop();self.emit((Tok::Dedent,TextRange::empty(tok_pos)));}self.emit((Tok::EndOfFile,TextRange::empty(tok_pos)));") {
                cx.ok(rule, "end of input: every open level is popped with a Dedent before EndOfFile");
            } else {
                cx.fail(rule, &format!("{}/eof-flush", rule), &lx.rel, "the end-of-input branch does not flush `while !indentations.is_empty() { pop; emit(Dedent) }` before EndOfFile");
            }
        }
        None => cx.anchor_missing(rule, "Lexer::consume_normal"),
    }
    // Indentations invariants
    let t = sm::tsx(&lx.file);
    // is_empty() and pop() are interpreted on stacks of 1..=4 levels: is_empty() <=> one level is left; pop() returns
    // None and leaves the stack alone at one level, and removes the top level otherwise
    let interpreted = (|| -> Result<(), String> {
        use crate::eval::{Machine, V};
        let ie = lx.method("Indentations", "is_empty").ok_or("Indentations::is_empty not found")?;
        let pp = lx.method("Indentations", "pop").ok_or("Indentations::pop not found")?;
        for len in 1..=4usize {
            let stack = V::List((0..len).map(|k| V::Int(k as i128)).collect());
            let popped = std::cell::Cell::new(0usize);
            let empty_val = std::cell::RefCell::new(None::<bool>);
            let methods = |recv: &V, m: &str, _a: &[V]| -> Option<V> {
                match (recv, m) {
                    (V::List(v), "pop") => {
                        popped.set(popped.get() + 1);
                        Some(V::Opt(v.last().cloned().map(Box::new)))
                    }
                    (V::Enum(r), "is_empty") if r == "self" => empty_val.borrow().map(V::Bool),
                    _ => None,
                }
            };
            let mut mach = Machine::new(&methods);
            mach.set("self.indent_stack", stack.clone());
            let e = mach.eval_fn_body(&ie.block).map_err(|e| format!("is_empty not interpretable ({})", e))?;
            if e != V::Bool(len == 1) {
                return Err(format!("is_empty() is {:?} with {} level(s) on the stack", e, len));
            }
            *empty_val.borrow_mut() = Some(len == 1);
            let mut mach = Machine::new(&methods);
            mach.set("self.indent_stack", stack);
            let r = mach.eval_fn_body(&pp.block).map_err(|e| format!("pop not interpretable ({})", e))?;
            let want = if len == 1 { V::Opt(None) } else { V::Opt(Some(Box::new(V::Int(len as i128 - 1)))) };
            if r != want || popped.get() != usize::from(len > 1) {
                return Err(format!("pop() with {} level(s) returns {:?} after {} removal(s)", len, r, popped.get()));
            }
        }
        Ok(())
    })();
    let ok = interpreted.is_ok() && t.contains("indent_stack:vec![IndentationLevel::default()]");
    if ok {
        cx.ok(rule, "Indentations: starts with one level, pop() refuses to remove it, is_empty() = (len == 1)");
    } else {
        cx.fail(rule, &format!("{}/stack-invariant", rule), &lx.rel, &format!("the Indentations stack does not keep its base level (Default with one level; pop returns None at len 1){}", interpreted.as_ref().err().map(|e| format!(": {}", e)).unwrap_or_default()));
    }
    // the stack is touched only through its methods
    let n = t.matches(".indent_stack").count();
    if n == 4 {
        cx.ok(rule, "indent_stack is accessed only inside Indentations' own methods");
    } else {
        cx.fail(rule, &format!("{}/stack-access", rule), &lx.rel, &format!("{} accesses to indent_stack (4 expected: is_empty, push, pop, current)", n));
    }
}

/// I2: Newline only outside brackets.
pub fn newline_guards(cx: &mut Ctx, rule: &str) {
    cx.rule(rule, "Newline is emitted only under nesting == 0: in the line-break arm inside `if self.nesting == 0`, and at end of input after the `nesting > 0 => Err(Eof)` return and only when the last line was not terminated");
    cx.floor(rule, 2);
    let Some(lx) = load_lexer(cx, rule) else { return };
    let Some((_, m)) = consume_character_arms(&lx) else { return cx.anchor_missing(rule, "consume_character") };
    let mut n_emit = 0;
    for arm in &m.arms {
        let (_chars, res) = interp_arm(arm);
        for e in &res.emits {
            if e.tok == "Newline" {
                n_emit += 1;
                if e.nesting_guard.as_deref() == Some("nesting==0") && e.s_ok && e.e_ok && e.spelled.chars().count() == 1 {
                    cx.ok(rule, "line-break arm: one next_char (folds CR LF), Newline emitted under nesting == 0 with start/end around it");
                } else {
                    cx.fail(rule, &format!("{}/line-break-arm", rule), &format!("{}:{}", lx.rel, e.line), &format!("Newline emitted with guard {:?}, start ok {}, end ok {}, {} characters consumed", e.nesting_guard, e.s_ok, e.e_ok, e.spelled.chars().count()));
                }
            }
        }
    }
    if n_emit != 1 {
        cx.fail(rule, &format!("{}/line-break-arm/count", rule), &lx.rel, &format!("{} Newline emits in consume_character (1 expected)", n_emit));
    }
    // inside brackets a line break does not start a logical line: `at_begin_of_line = true` (which makes the next
    // token run the indentation scan, with its tab/space consistency error) is set only under nesting == 0
    let mut n_sets = 0;
    for arm in &m.arms {
        let (_chars, res) = interp_arm(arm);
        for (g, v, line) in &res.line_start_sets {
            if v == "true" {
                n_sets += 1;
                if g.as_deref() == Some("nesting==0") {
                    cx.ok(rule, "a line break makes the next line a logical-line start only under nesting == 0");
                } else {
                    cx.fail(rule, &format!("{}/line-start-inside-brackets", rule), &format!("{}:{}", lx.rel, line), "consume_character sets at_begin_of_line = true without the nesting == 0 guard: continuation lines inside brackets run the indentation scan (their leading blanks can raise TabsAfterSpaces / change the tokens)");
                }
            }
        }
    }
    if n_sets == 0 {
        cx.fail(rule, &format!("{}/line-start/anchor", rule), &lx.rel, "no arm of consume_character sets at_begin_of_line = true (anchor moved; fail closed)");
    }
    match lexer_method(&lx, "consume_normal") {
        Some(f) => {
            // statements of the end-of-input branch, in order: the first that mentions Eof must be a guarded
            // `return Err(..Eof..)` on a positive nesting, and it must precede the statement that emits Newline
            let mut eof_stmts: Vec<String> = vec![];
            sm::for_each_expr_in_block(&f.block, |e| {
                if eof_stmts.is_empty() {
                    if let Some((scrut, brs)) = branches(e) {
                        if scrut == "self.window[0]" {
                            if let Some(b) = brs.iter().find(|b| matches!(b.pat, CPat::Wild | CPat::NoneP)) {
                                eof_stmts = b.body.iter().map(|s| sm::tsc(*s)).collect();
                            }
                        }
                    }
                }
            });
            let positive = ["if0<self.nesting{", "ifself.nesting!=0{", "if0!=self.nesting{", "if1<=self.nesting{"];
            let p_err = eof_stmts.iter().position(|t| positive.iter().any(|p| t.starts_with(p)) && t.contains("returnErr(") && t.contains("LexicalErrorType::Eof"));
            let p_nl = eof_stmts.iter().position(|t| t.contains("Tok::Newline"));
            let nl_ok = p_nl.map_or(false, |i| {
                let t = &eof_stmts[i];
                t.starts_with("if!self.at_begin_of_line{") && t.contains("self.at_begin_of_line=true;") && t.contains("self.emit((Tok::Newline,TextRange::empty(")
            });
            match (p_err, p_nl) {
                (Some(a), Some(b)) if a < b && nl_ok => cx.ok(rule, "end of input: Err(Eof) while brackets are open comes first; the closing Newline is empty and only added to an unterminated line"),
                _ => cx.fail(rule, &format!("{}/eof", rule), &lx.rel, "end-of-input branch does not return Err(Eof) for open brackets before emitting the final Newline"),
            }
            if sm::tsc(&f.block).matches("Tok::Newline").count() != 1 {
                cx.fail(rule, &format!("{}/eof/count", rule), &lx.rel, "more than one Newline emit in consume_normal");
            }
        }
        None => cx.anchor_missing(rule, "Lexer::consume_normal"),
    }
    // no other Newline emit anywhere
    let total = sm::tsc(&lx.file).matches("self.emit((Tok::Newline,").count();
    if total != 2 {
        cx.fail(rule, &format!("{}/sites", rule), &lx.rel, &format!("{} Newline emit sites in the lexer (2 expected)", total));
    }
}

/// S1: skip set — which consumption produces no token.
pub fn skip_set(cx: &mut Ctx, rule: &str) {
    cx.rule(rule, "the only characters consumed without producing a token (default configuration) are space/tab/form feed, comment text up to the line break, backslash + line break, line breaks inside brackets and of blank/comment-only lines, and a leading BOM; every other consuming path of consume_character ends in an emit or an Err, and every lex_* result is emitted");
    cx.floor(rule, 20);
    let Some(lx) = load_lexer(cx, rule) else { return };
    let Some((_, m)) = consume_character_arms(&lx) else { return cx.anchor_missing(rule, "consume_character") };
    let ws_set: BTreeSet<char> = [' ', '\t', '\x0C'].into_iter().collect();
    let bs_set: BTreeSet<char> = ['\\'].into_iter().collect();
    let nl_set: BTreeSet<char> = ['\n', '\r'].into_iter().collect();
    for arm in &m.arms {
        let (chars, res) = interp_arm(arm);
        let arm_name: String = if chars.is_empty() { sm::tsc(&arm.pat) } else { chars.iter().map(|c| c.escape_default().to_string()).collect::<Vec<_>>().join("|") };
        let body = sm::tsc(&arm.body);
        // opaque lex_* calls must be emitted (or be the comment helper)
        for oc in &res.opaque_calls {
            if oc.contains("lex_and_emit_comment") {
                if arm_name == "#" {
                    cx.ok(rule, "`#` arm: comment text is skipped (emitted as a token only under full-lexer)");
                } else {
                    cx.fail(rule, &format!("{}/comment-in/{}", rule, arm_name), &lx.loc(&arm.pat), "comment lexing from a non-`#` arm");
                }
                continue;
            }
            // let X = self.lex_y()?; self.emit(X);
            let name = oc.trim_start_matches("self.").split('(').next().unwrap_or("").to_string();
            let re_ok = body.contains(&format!("=self.{}(", name)) && {
                // find variable
                let var = body.split(&format!("=self.{}(", name)).next().and_then(|p| p.rsplit("let").next()).unwrap_or("").to_string();
                !var.is_empty() && body.contains(&format!("self.emit({});", var))
            };
            if re_ok {
                cx.ok(rule, &format!("arm `{}`: result of {} is emitted", arm_name, name));
            } else {
                cx.fail(rule, &format!("{}/unemitted/{}/{}", rule, arm_name, name), &lx.loc(&arm.pat), &format!("the token produced by {} in arm `{}` is not emitted", name, arm_name));
            }
        }
        if res.silent_paths.is_empty() {
            if res.opaque_calls.is_empty() {
                cx.ok(rule, &format!("arm `{}`: every path ends in an emit or an Err", arm_name));
            }
            continue;
        }
        let cset: BTreeSet<char> = chars.iter().copied().collect();
        if cset == ws_set || cset == bs_set || cset == nl_set {
            // the silent path must consume only the arm's own class of characters
            let detail = if cset == bs_set {
                res.silent_paths.iter().all(|(sp, k)| *k == 2 && sp.starts_with('\\')) && res.errors.iter().any(|(e, _)| e == "LineContinuationError")
            } else if cset == nl_set {
                res.silent_paths.iter().all(|(_, k)| *k == 1)
            } else {
                res.silent_paths.iter().all(|(sp, k)| sp.ends_with('*') && *k == 1)
            };
            if detail {
                cx.ok(rule, &format!("arm `{}`: layout consumed without a token", arm_name));
            } else {
                cx.fail(rule, &format!("{}/layout-arm/{}", rule, arm_name), &lx.loc(&arm.pat), &format!("layout arm `{}` consumes more than its own layout characters: {:?}", arm_name, res.silent_paths));
            }
        } else {
            for (sp, k) in &res.silent_paths {
                cx.fail(rule, &format!("{}/silent/{}", rule, arm_name), &lx.loc(&arm.pat), &format!("arm `{}` has a path that consumes {} character(s) (`{}`) and produces neither a token nor an error: text would silently disappear from the token stream", arm_name, k, sp));
            }
        }
    }
    // eat_indentation arms
    match lexer_method(&lx, "eat_indentation") {
        None => cx.anchor_missing(rule, "Lexer::eat_indentation"),
        Some(f) => {
            let mut arms: Vec<CPat> = vec![];
            sm::for_each_expr_in_block(&f.block, |e| {
                if arms.is_empty() {
                    if let Some((scrut, brs)) = branches(e) {
                        if scrut == "self.window[0]" {
                            arms = brs.iter().map(|b| b.pat.clone()).collect();
                        }
                    }
                }
            });
            let cls = |cs: &[char]| CPat::Chars(cs.iter().copied().collect());
            let want = vec![cls(&[' ']), cls(&['\t']), cls(&['#']), cls(&['\x0C']), cls(&['\n', '\r']), CPat::NoneP, CPat::Wild];
            let same = arms.len() == want.len() && want.iter().all(|w| arms.contains(w)) && arms.last() == Some(&CPat::Wild);
            if same {
                cx.ok(rule, "eat_indentation consumes exactly space, tab, comment, form feed and blank-line breaks");
            } else {
                cx.fail(rule, &format!("{}/eat_indentation/arms", rule), &lx.loc(f), &format!("eat_indentation decides on {:?}", arms));
            }
        }
    }
}

/// Q1: pending queue is FIFO.
pub fn pending_fifo(cx: &mut Ctx, rule: &str) {
    cx.rule(rule, "the pending token queue is FIFO: emit() is the only writer and appends at the back; inner_next is the only reader, removes at the front and loops until something is pending");
    cx.floor(rule, 3);
    let Some(lx) = load_lexer(cx, rule) else { return };
    match method_block_text(&lx, "emit") {
        Some(t) if t == "{self.pending.push(spanned);}" => cx.ok(rule, "emit = pending.push(spanned)"),
        Some(t) => cx.fail(rule, &format!("{}/emit", rule), &lx.rel, &format!("emit is `{}`", t)),
        None => cx.anchor_missing(rule, "Lexer::emit"),
    }
    match method_block_text(&lx, "inner_next") {
        Some(t) => {
            if t == "{whileself.pending.is_empty(){ifself.at_begin_of_line{self.handle_indentations()?;}self.consume_normal()?;}Ok(self.pending.remove(0))}" {
                cx.ok(rule, "inner_next: while pending.is_empty() { indentation; consume_normal }; Ok(pending.remove(0))");
            } else {
                cx.fail(rule, &format!("{}/inner_next", rule), &lx.rel, "inner_next is not `while pending.is_empty() { [handle_indentations]; consume_normal }; Ok(pending.remove(0))`");
            }
        }
        None => cx.anchor_missing(rule, "Lexer::inner_next"),
    }
    let all = sm::tsx(&lx.file);
    let n = all.matches(".pending").count();
    // new(): `pending: Vec::with_capacity(5)` is a field init (no dot); uses: push, is_empty, remove
    if n == 3 {
        cx.ok(rule, "pending is touched by emit (push) and inner_next (is_empty, remove(0)) only");
    } else {
        cx.fail(rule, &format!("{}/access", rule), &lx.rel, &format!("{} accesses to `.pending` (3 expected)", n));
    }
}

/// W1: indentation counters are reset by every non-indentation arm (sibling agreement).
pub fn indentation_counters(cx: &mut Ctx, rule: &str) {
    cx.rule(rule, "in eat_indentation each of `spaces`/`tabs` is incremented exactly once, right after one next_char() of its own 1-byte character, and every other consuming arm and the end-of-input arm reset both counters to 0 (blank lines, comment-only lines, form feeds and trailing blanks never count as indentation); the tab arm rejects a tab after spaces");
    cx.floor(rule, 6);
    let Some(lx) = load_lexer(cx, rule) else { return };
    let Some(f) = lexer_method(&lx, "eat_indentation") else { return cx.anchor_missing(rule, "Lexer::eat_indentation") };
    let mut mm: Option<&syn::ExprMatch> = None;
    sm::for_each_expr_in_block(&f.block, |e| {
        if let syn::Expr::Match(m) = e {
            if sm::tsc(&m.expr) == "self.window[0]" && mm.is_none() {
                mm = Some(m);
            }
        }
    });
    let Some(m) = mm else { return cx.fail(rule, &format!("{}/shape", rule), &lx.loc(f), "no match on window[0]") };
    // the counters are whatever locals the returned IndentationLevel { spaces, tabs } is built from: the rule reads
    // the function with those locals called `spaces` and `tabs`
    let mut names: Vec<(String, String)> = vec![];
    sm::for_each_expr_in_block(&f.block, |e| {
        if let syn::Expr::Struct(st) = e {
            if st.path.segments.last().map_or(false, |s| s.ident == "IndentationLevel") {
                names.clear();
                for fv in &st.fields {
                    if let (syn::Member::Named(m), Some(id)) = (&fv.member, sm::as_ident(&fv.expr)) {
                        names.push((id, m.to_string()));
                    }
                }
            }
        }
    });
    let canon_toks = |toks: &[String]| -> String {
        let out: String = toks.iter().map(|t| names.iter().find(|(from, _)| from == t).map_or(t.as_str(), |(_, to)| to.as_str())).collect();
        out.replace("spaces:spaces", "spaces").replace("tabs:tabs", "tabs")
    };
    for arm in &m.arms {
        let pat = sm::tsc(&arm.pat);
        // drop cfg(full-lexer) statements for the default-configuration reading
        let stmts: Vec<String> = match &*arm.body {
            syn::Expr::Block(b) => b
                .block
                .stmts
                .iter()
                .filter(|s| match s {
                    syn::Stmt::Local(l) => !sm::cfg_features(&l.attrs).iter().any(|(n, p)| n == "full-lexer" && *p),
                    syn::Stmt::Expr(syn::Expr::MethodCall(mc), _) => !sm::cfg_features(&mc.attrs).iter().any(|(n, p)| n == "full-lexer" && *p),
                    _ => true,
                })
                .map(|s| canon_toks(&sm::tsx(s).toks))
                .collect(),
            other => vec![canon_toks(&sm::tsx(other).toks)],
        };
        let key = format!("{}/{}", rule, pat);
        let ok = match pat.as_str() {
            "Some(' ')" => stmts == ["self.next_char();", "spaces+=1;"],
            "Some('\\t')" => stmts.len() == 3 && stmts[0].starts_with("ifspaces!=0{returnErr(LexicalError{error:LexicalErrorType::TabsAfterSpaces,") && stmts[1] == "self.next_char();" && stmts[2] == "tabs+=1;",
            "Some('#')" => stmts == ["self.lex_and_emit_comment()?;", "spaces=0;", "tabs=0;"],
            "Some('\\x0C')" | "Some('\\n'|'\\r')" => stmts == ["self.next_char();", "spaces=0;", "tabs=0;"],
            "None" => stmts == ["spaces=0;", "tabs=0;", "break;"],
            "_" => stmts == ["self.at_begin_of_line=false;", "break;"],
            _ => false,
        };
        if ok {
            cx.ok(rule, &format!("arm {}: {}", pat, stmts.join(" ")));
        } else {
            cx.fail(rule, &key, &lx.loc(&arm.pat), &format!("arm {} is `{}`: counters are not (incremented once per consumed indentation character | reset to 0) as in the sibling arms", pat, stmts.join(" ")));
        }
    }
    let t = canon_toks(&sm::tsx(&f.block).toks);
    let starts = t.starts_with("{letmutspaces:u32=0;letmuttabs:u32=0;loop{") || t.starts_with("{letmuttabs:u32=0;letmutspaces:u32=0;loop{");
    if starts && t.ends_with("Ok(IndentationLevel{spaces,tabs})}") {
        cx.ok(rule, "counters start at 0 and are returned as IndentationLevel { tabs, spaces }");
    } else {
        cx.fail(rule, &format!("{}/frame", rule), &lx.loc(f), "eat_indentation does not start both counters at 0 and return IndentationLevel { tabs, spaces }");
    }
}
