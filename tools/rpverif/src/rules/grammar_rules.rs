//! Rules evaluated on the grammar's action code (shared by C01, C02, C04, C13).

use crate::actionflow::{self, Flow, Pos};
use crate::astmodel::{self, AstModel};
use crate::grammar::{self, Alt, Grammar, NtDef, SymKind};
use crate::report::Ctx;
use crate::srcmodel as sm;
use crate::tables;
use std::collections::{BTreeMap, BTreeSet};

pub fn lal(a: &Alt) -> String {
    format!("parser/src/python.lalrpop:{}", a.line)
}

thread_local! {
    /// nonterminals of the current grammar that the reviewed grammar does not have: name -> the nonterminal names
    /// their alternatives are made of (set by tables::load_grammar; used to look through new helper nonterminals)
    pub static NEW_HELPERS: std::cell::RefCell<BTreeMap<String, Vec<String>>> = std::cell::RefCell::new(BTreeMap::new());
}

/// A name for an alternative that survives reordering, merging and splitting of its siblings, renaming of macro
/// parameters and the introduction of helper nonterminals: the nonterminal plus the (reviewed) nonterminals the
/// alternative is made of — terminals, captures, bindings, repetition marks and list macros left out, macro parameters
/// written `P`, un-reviewed helper nonterminals replaced by what they are made of — with an ordinal only when two
/// alternatives of the nonterminal have the same make-up.
pub fn alt_key(d: &NtDef, a: &Alt) -> String {
    fn sig(d: &NtDef, a: &Alt) -> String {
        fn names(s: &grammar::Sym, params: &[String], out: &mut Vec<String>, depth: usize) {
            let push_name = |n: &String, out: &mut Vec<String>| {
                if params.contains(n) {
                    out.push("P".to_string());
                    return;
                }
                let inner: Option<Vec<String>> = NEW_HELPERS.with(|h| h.borrow().get(n).cloned());
                match inner {
                    Some(v) if depth < 3 => {
                        for x in v {
                            if x != *n && !out.contains(&x) {
                                out.push(x);
                            }
                        }
                    }
                    _ => out.push(n.clone()),
                }
            };
            match &s.kind {
                SymKind::Name(n) => push_name(n, out),
                SymKind::Macro(n, args) => {
                    // list macros are named by what they list
                    if matches!(n.as_str(), "OneOrMore" | "TwoOrMore" | "Comma") {
                        let mut inner = vec![];
                        for x in args {
                            names(x, params, &mut inner, depth);
                        }
                        out.extend(inner.into_iter().map(|x| format!("{}*", x.trim_end_matches('*'))));
                    } else {
                        push_name(n, out);
                    }
                }
                SymKind::Group(v) => {
                    for x in v {
                        names(x, params, out, depth);
                    }
                }
                _ => {}
            }
        }
        let mut v = vec![];
        for s in &a.syms {
            names(s, &d.params, &mut v, 0);
        }
        let cond = a.cond.as_ref().map(|(p, eq, lit)| format!("|{}{}", if *eq { "==" } else { "!=" }, lit.trim_matches('"')).replace(p.as_str(), "")).unwrap_or_default();
        format!("{}{}", v.join(","), cond)
    }
    let me = sig(d, a);
    let same: Vec<usize> = d.alts.iter().filter(|x| sig(d, x) == me).map(|x| x.index).collect();
    if same.len() <= 1 {
        format!("{}[{}]", d.name, me)
    } else {
        let k = same.iter().position(|i| *i == a.index).unwrap_or(0) + 1;
        format!("{}[{}]#{}", d.name, me, k)
    }
}

pub fn load_ast_model(cx: &mut Ctx) -> Option<AstModel> {
    match sm::load(&cx.repo, "ast/src/gen/generic.rs") {
        Ok(s) => Some(astmodel::load(&s)),
        Err(e) => {
            cx.anchor_missing("ast-model", &e);
            None
        }
    }
}

/// Iterate (def, alt, action expr)
pub fn actions(g: &Grammar) -> Vec<(&NtDef, &Alt, &syn::Expr)> {
    let mut v = vec![];
    for d in &g.defs {
        for a in &d.alts {
            if let Some(act) = &a.action {
                if let Some(e) = &act.expr {
                    v.push((d, a, e));
                }
            }
        }
    }
    v
}

// ------------------------------------------------------------------ C01.X1

pub fn context_discipline(cx: &mut Ctx, g: &Grammar) {
    let ra = "C01.X1a";
    let rb = "C01.X1b";
    let rc = "C01.X1c";
    cx.rule(ra, "every expression literal with a ctx field built in a grammar action uses Load, except the two binding-target constructors (TypeAliasName, NamedExpression target) which use Store");
    cx.rule(rb, "every target position of the language (assign, augmented assign, annotated assign, for, with-as, comprehension, del) passes its expression through set_context(_, Store|Del) on every path into the node");
    cx.rule(rc, "set_context has an arm for every Expr variant that carries a ctx field, rebuilds the same variant with the new ctx and all other fields unchanged, recurses into exactly the element-carrying variants (Tuple, List, Starred) and returns every other expression unchanged");
    cx.floor(ra, 15);
    cx.floor(rb, 8);
    cx.floor(rc, 7);
    let Some(model) = load_ast_model(cx) else { return };

    // (a)
    for (d, a, e) in actions(g) {
        sm::for_each_expr(e, |x| {
            if let syn::Expr::Struct(s) = x {
                for fv in &s.fields {
                    if sm::ts(&fv.member) == "ctx" {
                        let ty = s.path.segments.last().map(|p| p.ident.to_string()).unwrap_or_default();
                        let val = sm::tsc(&fv.expr);
                        let want = if (d.name == "TypeAliasName" || d.name == "NamedExpression") && ty == "ExprName" { "ast::ExprContext::Store" } else { "ast::ExprContext::Load" };
                        let key = format!("{}/{}/{}", ra, alt_key(d, a), ty);
                        if val == want {
                            cx.ok(ra, &format!("{} in {}: ctx = {}", ty, alt_key(d, a), want));
                        } else {
                            cx.fail(ra, &key, &lal(a), &format!("{} built with ctx `{}`, expected `{}`", ty, val, want));
                        }
                    }
                }
            }
        });
    }

    // (b) target sites: (struct type, field, ctx)
    let sites: [(&str, &str, &str); 9] = [
        ("StmtAssign", "targets", "Store"),
        ("StmtAugAssign", "target", "Store"),
        ("StmtAnnAssign", "target", "Store"),
        ("StmtFor", "target", "Store"),
        ("StmtAsyncFor", "target", "Store"),
        ("WithItem", "optional_vars", "Store"),
        ("Comprehension", "target", "Store"),
        ("StmtDelete", "targets", "Del"),
        ("StmtAsyncWith", "", ""), // placeholder, ignored
    ];
    let mut seen_sites = BTreeSet::new();
    for (d, a, e) in actions(g) {
        // local definitions: ident -> contributing expressions
        let mut contrib: BTreeMap<String, Vec<&syn::Expr>> = BTreeMap::new();
        collect_contributions(e, &mut contrib);
        sm::for_each_expr(e, |x| {
            if let syn::Expr::Struct(s) = x {
                let ty = s.path.segments.last().map(|p| p.ident.to_string()).unwrap_or_default();
                for (sty, field, ctxname) in sites.iter().filter(|s| !s.1.is_empty()) {
                    if ty != *sty {
                        continue;
                    }
                    for fv in &s.fields {
                        if sm::ts(&fv.member) != *field {
                            continue;
                        }
                        // a None literal (e.g. optional_vars: None) carries no expression
                        if sm::tsc(&fv.expr) == "None" {
                            continue;
                        }
                        seen_sites.insert(format!("{}.{}", sty, field));
                        let mut leaves = vec![];
                        resolve_leaves(&fv.expr, &contrib, &mut leaves, 0);
                        let want = format!("ast::ExprContext::{}", ctxname);
                        let mut bad = vec![];
                        for l in &leaves {
                            if !passes_set_context(l, &want) {
                                bad.push(sm::tsc(*l));
                            }
                        }
                        let key = format!("{}/{}/{}.{}", rb, alt_key(d, a), sty, field);
                        if bad.is_empty() && !leaves.is_empty() {
                            cx.ok(rb, &format!("{}.{} in {}: {} contribution(s) all through set_context(_, {})", sty, field, alt_key(d, a), leaves.len(), ctxname));
                        } else {
                            cx.fail(rb, &key, &lal(a), &format!("{}.{} receives {:?} without set_context(_, {})", sty, field, bad, want));
                        }
                    }
                }
            }
        });
    }
    for (sty, field, _) in sites.iter().filter(|s| !s.1.is_empty()) {
        if !seen_sites.contains(&format!("{}.{}", sty, field)) {
            cx.fail(rb, &format!("{}/missing-site/{}.{}", rb, sty, field), "parser/src/python.lalrpop", &format!("no action builds {}.{} (target site table out of date: fail closed)", sty, field));
        }
    }

    // (c) set_context arms
    let ctxsrc = match sm::load(&cx.repo, "parser/src/context.rs") {
        Ok(s) => s,
        Err(e) => return cx.anchor_missing(rc, &e),
    };
    let Some(f) = ctxsrc.free_fns("set_context").into_iter().next() else { return cx.anchor_missing(rc, "set_context") };
    // Expr variants whose payload struct has a ctx field
    let mut with_ctx = BTreeSet::new();
    if let Some(en) = model.enums.get("Expr") {
        for (v, payload) in &en.variants {
            if let Some(p) = payload {
                if model.structs.get(p).map_or(false, |s| s.fields.iter().any(|f| f.name == "ctx")) {
                    with_ctx.insert(v.clone());
                }
            }
        }
    }
    let recursing: BTreeSet<&str> = ["Tuple", "List", "Starred"].into_iter().collect();
    let mut seen = BTreeSet::new();
    let mm = f.block.stmts.iter().find_map(|s| if let syn::Stmt::Expr(syn::Expr::Match(m), _) = s { Some(m) } else { None });
    let Some(mm) = mm else { return cx.fail(rc, &format!("{}/shape", rc), &ctxsrc.loc(f), "set_context is not a single match") };
    if sm::tsc(&mm.expr) != "expr" || f.block.stmts.len() != 1 {
        cx.fail(rc, &format!("{}/shape", rc), &ctxsrc.loc(f), "set_context is not a single `match expr`");
    }
    for arm in &mm.arms {
        let pt = sm::tsc(&arm.pat);
        if pt == "_" {
            if sm::tsc(&arm.body) == "expr" {
                cx.ok(rc, "default arm returns the expression unchanged");
            } else {
                cx.fail(rc, &format!("{}/default", rc), &ctxsrc.loc(&arm.pat), "default arm does not return `expr` unchanged");
            }
            continue;
        }
        // Expr::V(ast::ExprV { fields.., .. })
        let syn::Pat::TupleStruct(ts) = &arm.pat else {
            cx.fail(rc, &format!("{}/arm-shape/{}", rc, pt.chars().take(30).collect::<String>()), &ctxsrc.loc(&arm.pat), "unrecognised arm pattern");
            continue;
        };
        let var = ts.path.segments.last().map(|s| s.ident.to_string()).unwrap_or_default();
        seen.insert(var.clone());
        let key = format!("{}/{}", rc, var);
        let Some(syn::Pat::Struct(ps)) = ts.elems.first() else {
            cx.fail(rc, &key, &ctxsrc.loc(&arm.pat), "arm does not destructure the payload struct");
            continue;
        };
        let sty = ps.path.segments.last().map(|s| s.ident.to_string()).unwrap_or_default();
        let Some(st) = model.structs.get(&sty) else {
            cx.fail(rc, &key, &ctxsrc.loc(&arm.pat), &format!("unknown struct {}", sty));
            continue;
        };
        let bound: BTreeSet<String> = ps.fields.iter().map(|f| sm::ts(&f.member)).collect();
        let mut probs = vec![];
        if bound.contains("ctx") {
            probs.push("pattern binds the old ctx".to_string());
        }
        // result: ast::ExprV { f.. , ctx }.into()
        let mut lit: Option<&syn::ExprStruct> = None;
        sm::for_each_expr(&arm.body, |x| {
            if let syn::Expr::Struct(s) = x {
                if lit.is_none() {
                    lit = Some(s);
                }
            }
        });
        match lit {
            None => probs.push("arm does not rebuild a struct".into()),
            Some(s) => {
                let lty = s.path.segments.last().map(|p| p.ident.to_string()).unwrap_or_default();
                if lty != sty {
                    probs.push(format!("rebuilds {} from {}", lty, sty));
                }
                let mut litfields = BTreeSet::new();
                for fv in &s.fields {
                    let name = sm::ts(&fv.member);
                    let val = sm::tsc(&fv.expr);
                    litfields.insert(name.clone());
                    if name == "ctx" {
                        if val != "ctx" {
                            probs.push(format!("ctx is set to `{}` instead of the parameter", val));
                        }
                    } else if recursing.contains(var.as_str()) && (name == "elts" || name == "value") {
                        let ok = if name == "elts" {
                            sm::elementwise(&val, Some(&ctxsrc.file)) == Some(("elts".to_string(), "set_context(_elem,ctx)".to_string()))
                        } else {
                            val == "Box::new(set_context(*value,ctx))"
                        };
                        if !ok {
                            probs.push(format!("{} is rebuilt as `{}` (expected element-wise set_context(_, ctx), order preserved)", name, val));
                        }
                    } else if val != name {
                        probs.push(format!("field {} is rebuilt from `{}`", name, val));
                    }
                }
                let want: BTreeSet<String> = st.fields.iter().map(|f| f.name.clone()).collect();
                if litfields != want {
                    probs.push(format!("rebuilt fields {:?} differ from struct fields {:?}", litfields, want));
                }
                if !recursing.contains(var.as_str()) && sm::tsc(&arm.body).contains("set_context(") {
                    probs.push("unexpected recursion".into());
                }
            }
        }
        if probs.is_empty() {
            cx.ok(rc, &format!("arm {}: rebuilds {} with the new ctx", var, sty));
        } else {
            cx.fail(rc, &key, &ctxsrc.loc(&arm.pat), &probs.join("; "));
        }
    }
    for v in &with_ctx {
        if !seen.contains(v) {
            cx.fail(rc, &format!("{}/{}/missing", rc, v), &ctxsrc.loc(f), &format!("Expr::{} carries a ctx but set_context has no arm for it", v));
        }
    }
    for v in &seen {
        if !with_ctx.contains(v) {
            cx.fail(rc, &format!("{}/{}/extra", rc, v), &ctxsrc.loc(f), &format!("set_context has an arm for Expr::{} which has no ctx", v));
        }
    }
}

/// ident -> expressions that flow into it (let initialisers, push arguments, assignments)
fn collect_contributions<'a>(e: &'a syn::Expr, out: &mut BTreeMap<String, Vec<&'a syn::Expr>>) {
    struct V<'a, 'b> {
        out: &'b mut BTreeMap<String, Vec<&'a syn::Expr>>,
    }
    impl<'a, 'b> syn::visit::Visit<'a> for V<'a, 'b> {
        fn visit_local(&mut self, l: &'a syn::Local) {
            if let Some(init) = &l.init {
                let mut ids = vec![];
                sm::pat_idents(&l.pat, &mut ids);
                if ids.len() == 1 {
                    self.out.entry(ids[0].clone()).or_default().push(&init.expr);
                }
            }
            syn::visit::visit_local(self, l);
        }
        fn visit_expr_method_call(&mut self, mc: &'a syn::ExprMethodCall) {
            if mc.method == "push" && mc.args.len() == 1 {
                if let Some(id) = sm::as_ident(&mc.receiver) {
                    self.out.entry(id).or_default().push(&mc.args[0]);
                }
            }
            syn::visit::visit_expr_method_call(self, mc);
        }
        fn visit_expr_assign(&mut self, a: &'a syn::ExprAssign) {
            if let Some(id) = sm::as_ident(&a.left) {
                self.out.entry(id).or_default().push(&a.right);
            }
            syn::visit::visit_expr_assign(self, a);
        }
    }
    use syn::visit::Visit;
    V { out }.visit_expr(e);
}

fn resolve_leaves<'a>(e: &'a syn::Expr, contrib: &BTreeMap<String, Vec<&'a syn::Expr>>, out: &mut Vec<&'a syn::Expr>, depth: usize) {
    if depth > 6 {
        out.push(e);
        return;
    }
    // peel Box::new / Some
    let mut cur = e;
    loop {
        match cur {
            syn::Expr::Call(c) if c.args.len() == 1 && (sm::tsc(&c.func) == "Box::new" || sm::tsc(&c.func) == "Some") => cur = &c.args[0],
            syn::Expr::Paren(p) => cur = &p.expr,
            _ => break,
        }
    }
    if let Some(id) = sm::as_ident(cur) {
        if let Some(defs) = contrib.get(&id) {
            for d in defs {
                resolve_leaves(d, contrib, out, depth + 1);
            }
            return;
        }
    }
    if let syn::Expr::Macro(m) = cur {
        if m.mac.path.is_ident("vec") {
            // vec![a, b]: each element is a contribution
            if let Ok(elems) = m.mac.parse_body_with(syn::punctuated::Punctuated::<syn::Expr, syn::Token![,]>::parse_terminated) {
                // leak-free: we cannot return references into a temporary; fall back to checking here
                let all = elems.iter().all(|x| {
                    let t = sm::tsx(x);
                    t.starts_with("set_context(")
                });
                if all {
                    // represent as the macro expression itself; passes_set_context handles vec!
                    out.push(cur);
                    return;
                }
            }
        }
    }
    out.push(cur);
}

fn passes_set_context(e: &syn::Expr, want_ctx: &str) -> bool {
    match e {
        syn::Expr::Call(c) => sm::tsc(&c.func) == "set_context" && c.args.len() == 2 && sm::tsc(&c.args[1]) == want_ctx,
        syn::Expr::Macro(m) if m.mac.path.is_ident("vec") => {
            if let Ok(elems) = m.mac.parse_body_with(syn::punctuated::Punctuated::<syn::Expr, syn::Token![,]>::parse_terminated) {
                !elems.is_empty() && elems.iter().all(|x| passes_set_context(x, want_ctx))
            } else {
                false
            }
        }
        syn::Expr::MethodCall(_) => {
            // X.into_iter().map(|p| set_context(p, CTX)).collect()
            let (_, chain) = sm::method_chain(e);
            let names: Vec<&str> = chain.iter().map(|c| c.0.as_str()).collect();
            if names == ["into_iter", "map", "collect"] {
                if let Some((p, b)) = chain[1].1.get(0).and_then(|a| sm::closure1(a)) {
                    return sm::tsc(b) == format!("set_context({},{})", p, want_ctx);
                }
            }
            false
        }
        _ => false,
    }
}

// ------------------------------------------------------------------ O1 field / source order

pub struct OrderRef {
    pub exceptions: BTreeMap<String, Vec<String>>,
    pub interleaved: BTreeSet<(String, String, String)>,
}

pub fn load_order_ref(cx: &mut Ctx) -> Option<OrderRef> {
    let v = match tables::refdata(&cx.verif, "asdl_source_order.json") {
        Ok(v) => v,
        Err(e) => {
            cx.anchor_missing("refdata", &e);
            return None;
        }
    };
    cx.refdata.insert("asdl_source_order.json".into());
    let mut exceptions = BTreeMap::new();
    if let Some(o) = v["exceptions"].as_object() {
        for (k, arr) in o {
            exceptions.insert(k.clone(), arr["order"].as_array().map(|a| a.iter().map(|x| x.as_str().unwrap_or("").to_string()).collect()).unwrap_or_default());
        }
    }
    let mut interleaved = BTreeSet::new();
    if let Some(a) = v["interleaved"].as_array() {
        for t in a {
            let t: Vec<String> = t.as_array().unwrap().iter().map(|x| x.as_str().unwrap().to_string()).collect();
            interleaved.insert((t[0].clone(), t[1].clone(), t[2].clone()));
            interleaved.insert((t[0].clone(), t[2].clone(), t[1].clone()));
        }
    }
    Some(OrderRef { exceptions, interleaved })
}

pub fn source_order_of(model: &AstModel, oref: &OrderRef, ty: &str) -> Option<Vec<String>> {
    if let Some(o) = oref.exceptions.get(ty) {
        return Some(o.clone());
    }
    model.structs.get(ty).map(|s| s.fields.iter().filter(|f| f.name != "range").map(|f| f.name.clone()).collect())
}

/// The grammar binding order relation: for every struct literal in an action, fields must take their
/// values from bindings in reference source order.
pub fn field_order(cx: &mut Ctx, g: &Grammar, rule: &str) {
    cx.rule(rule, "for every AST struct literal built in a grammar action, the alternative's bindings feeding the fields appear in the reference source order of that node kind (refdata asdl_source_order: ASDL field order plus documented exceptions); catches left/right, body/orelse, lower/upper, key/value, test/body swaps in any action; tuple-valued nonterminals list their components in source order");
    cx.floor(rule, 120);
    let Some(model) = load_ast_model(cx) else { return };
    let Some(oref) = load_order_ref(cx) else { return };
    for (d, a, e) in actions(g) {
        let mut flow = Flow::with_locations(a, false);
        flow.run_expr(e);
        // tuple-valued result: components in source order
        if let Some(t) = tail_tuple(e) {
            let mut prev: Option<(Pos, String)> = None;
            let mut ok = true;
            for el in &t.elems {
                let (p, unknown) = flow.pos_of(el);
                if unknown {
                    continue;
                }
                if let Some(p) = p {
                    if let Some((pp, ptxt)) = &prev {
                        if !(pp.hi < p.lo || (pp.hi.0 < p.lo.0) || (pp.lo == p.lo && pp.hi == p.hi)) && !(pp.hi <= p.lo) {
                            ok = false;
                            cx.fail(rule, &format!("{}/tuple/{}", rule, alt_key(d, a)), &lal(a), &format!("tuple result lists `{}` before `{}` against source order", ptxt, sm::tsc(el)));
                        }
                    }
                    prev = Some((p, sm::tsc(el)));
                }
            }
            if ok && t.elems.len() > 1 {
                cx.ok(rule, &format!("tuple result of {} in source order", alt_key(d, a)));
            }
        }
        let mut lit_no = 0;
        for lit in &flow.lits {
            let Some(order) = source_order_of(&model, &oref, &lit.ty) else { continue };
            lit_no += 1;
            // fields with known positions, in reference order
            let mut placed: Vec<(&String, &Pos)> = vec![];
            for fname in &order {
                // flags carry no source text of their own
                if model.structs.get(&lit.ty).and_then(|s| s.fields.iter().find(|f| &f.name == fname)).map_or(false, |f| f.ty == "bool") {
                    continue;
                }
                if let Some((_, Some(p), unknown, _)) = lit.fields.iter().find(|f| &f.0 == fname).map(|f| (&f.0, &f.1, f.2, &f.3)) {
                    if !unknown {
                        placed.push((fname, p));
                    }
                }
            }
            let mut bad = vec![];
            for i in 0..placed.len() {
                for j in i + 1..placed.len() {
                    let (fa, pa) = placed[i];
                    let (fb, pb) = placed[j];
                    if oref.interleaved.contains(&(lit.ty.clone(), fa.clone(), fb.clone())) {
                        continue;
                    }
                    // fa must come entirely before fb; values from the very same binding and component are tolerated
                    // only when declared interleaved
                    let before = pa.hi.0 < pb.lo.0 || (pa.hi.0 == pb.lo.0 && pa.hi.1 != usize::MAX && pb.lo.1 != usize::MAX && pa.hi.1 < pb.lo.1) || (pa.hi.0 == pb.lo.0 && pa.hi.1 == usize::MAX && pb.lo.1 == 0 && pa.lo.0 < pb.lo.0);
                    if !before {
                        bad.push(format!("`{}` (from {:?}) is not before `{}` (from {:?})", fa, pa.roots, fb, pb.roots));
                    }
                }
            }
            let key = format!("{}/{}/{}{}", rule, alt_key(d, a), lit.ty, if lit_no > 1 { format!("#{}", lit_no) } else { String::new() });
            if bad.is_empty() {
                if placed.len() >= 2 {
                    cx.ok(rule, &format!("{} in {}: {}", lit.ty, alt_key(d, a), placed.iter().map(|p| p.0.as_str()).collect::<Vec<_>>().join(" < ")));
                } else {
                    cx.ok_trivial(rule);
                }
            } else {
                cx.fail(rule, &key, &lal(a), &format!("{} literal: {}", lit.ty, bad.join("; ")));
            }
        }
    }
}

fn tail_tuple(e: &syn::Expr) -> Option<&syn::ExprTuple> {
    match e {
        syn::Expr::Tuple(t) => Some(t),
        syn::Expr::Block(b) => match b.block.stmts.last() {
            Some(syn::Stmt::Expr(x, None)) => tail_tuple(x),
            _ => None,
        },
        syn::Expr::Call(c) if sm::tsc(&c.func) == "Ok" && c.args.len() == 1 => tail_tuple(&c.args[0]),
        syn::Expr::Paren(p) => tail_tuple(&p.expr),
        _ => None,
    }
}

// ------------------------------------------------------------------ D1 trailing-comma singletons

/// Alternatives of the shape `elem ","` next to a sibling alternative that builds a sequence node
/// must build the one-element sequence node themselves.
pub fn singleton_deviants(cx: &mut Ctx, g: &Grammar) {
    let rule = "C01.D1";
    cx.rule(rule, "an alternative consisting of one element followed by a mandatory \",\" whose sibling alternative builds a sequence node (Tuple / MatchSequence) must itself build the one-element sequence; it must not return the bare element");
    cx.floor(rule, 4);
    let seq_types = ["ExprTuple", "PatternMatchSequence"];
    for d in &g.defs {
        // does a sibling build a sequence node from a multi-element list?
        let sibling_seq = d.alts.iter().any(|a| a.action.as_ref().map_or(false, |x| seq_types.iter().any(|t| x.code.contains(t))));
        if !sibling_seq {
            continue;
        }
        for a in &d.alts {
            // shape: a bound single element (no repetition, not a list macro) immediately followed by a
            // mandatory "," which is not followed by a further element or a "/" / "**" marker
            let is_list = |s: &grammar::Sym| matches!(&s.kind, SymKind::Macro(n, _) if n == "OneOrMore" || n == "TwoOrMore" || n == "Comma") || !s.rep.is_empty();
            let mut hit: Option<&grammar::Sym> = None;
            for i in 0..a.syms.len().saturating_sub(1) {
                let s0 = &a.syms[i];
                let s1 = &a.syms[i + 1];
                let elem = s0.binding.is_some() && !is_list(s0) && matches!(s0.kind, SymKind::Name(_) | SymKind::Macro(..));
                // a mandatory ",", or an optional one the action cannot see (unbound `","?`): with the comma present
                // the alternative has to build the one-element sequence either way
                let comma = matches!(&s1.kind, SymKind::Term(t) if t == ",") && (s1.rep.is_empty() || s1.rep == "?") && s1.binding.is_none();
                if !(elem && comma) {
                    continue;
                }
                let next = a.syms.get(i + 2);
                let followed_by_more = next.map_or(false, |n| n.binding.is_some() && !matches!(n.kind, SymKind::Lookahead | SymKind::Lookbehind) || matches!(&n.kind, SymKind::Term(t) if t == "/" || t == "**" || t == "*"));
                if !followed_by_more {
                    hit = Some(s0);
                }
            }
            let Some(elem) = hit else { continue };
            let code = a.action.as_ref().map(|x| x.code.clone()).unwrap_or_default();
            let builds = seq_types.iter().any(|t| code.contains(t));
            // keyed by nonterminal and element (not by the alternative's index: alternatives may be merged or reordered)
            let elem_name = match &elem.kind {
                SymKind::Name(n) => n.clone(),
                SymKind::Macro(n, _) => n.clone(),
                _ => grammar::sym_text(elem),
            };
            let key = format!("{}/{}/{}", rule, d.name, elem_name);
            if builds {
                cx.ok(rule, &format!("{}: `{}` \",\" builds the singleton sequence", alt_key(d, a), grammar::sym_text(elem)));
            } else {
                cx.fail(rule, &key, &lal(a), &format!("`{} \",\"` returns the bare element although sibling alternatives build a sequence node: `x,` must be a one-element sequence", grammar::sym_text(elem)));
            }
        }
    }
}

// ------------------------------------------------------------------ D2 paren-sensitive flags

/// An AST flag computed from a kind test of a child that came through a paren-transparent nonterminal.
pub fn paren_sensitive_flags(cx: &mut Ctx, g: &Grammar) {
    let rule = "C01.D2";
    cx.rule(rule, "a boolean AST field must not be computed from a kind test (is_*_expr) of a child bound to a paren-transparent nonterminal: the parenthesised atom returns its inner node unchanged, so the flag cannot see the parentheses the reference distinguishes");
    cx.floor(rule, 1);
    for (d, a, e) in actions(g) {
        // let FLAG = X.is_..._expr(); ... FLAG used as a struct field
        let mut flagged: Vec<(String, String)> = vec![];
        if let syn::Expr::Block(b) = e {
            for s in &b.block.stmts {
                if let syn::Stmt::Local(l) = s {
                    if let Some(init) = &l.init {
                        if let syn::Expr::MethodCall(mc) = &*init.expr {
                            let m = mc.method.to_string();
                            if m.starts_with("is_") && m.ends_with("_expr") {
                                let mut ids = vec![];
                                sm::pat_idents(&l.pat, &mut ids);
                                if let (Some(v), Some(r)) = (ids.first(), sm::as_ident(&mc.receiver)) {
                                    flagged.push((v.clone(), format!("{}.{}()", r, m)));
                                }
                            }
                        }
                    }
                }
            }
        }
        for (var, test) in flagged {
            let mut used_as_field = None;
            sm::for_each_expr(e, |x| {
                if let syn::Expr::Struct(s) = x {
                    for fv in &s.fields {
                        if sm::tsc(&fv.expr) == var {
                            used_as_field = Some(format!("{}.{}", s.path.segments.last().map(|p| p.ident.to_string()).unwrap_or_default(), sm::ts(&fv.member)));
                        }
                    }
                }
            });
            if let Some(field) = used_as_field {
                cx.fail(rule, &format!("{}/{}", rule, field), &lal(a), &format!("{} is computed as `{}` in {}; the child comes through the paren-transparent Atom, so `(x): int = 1` gets the same flag as `x: int = 1`", field, test, alt_key(d, a)));
            }
        }
    }
    // instance accounting: the parenthesised atom alternatives that return the inner node unchanged
    let mut n = 0;
    for (d, a, e) in actions(g) {
        if d.name != "Atom" {
            continue;
        }
        let starts_paren = a.syms.iter().any(|s| matches!(&s.kind, SymKind::Term(t) if t == "("));
        if starts_paren {
            let t = sm::tsx(e);
            if t.contains("elts.into_iter().next().unwrap()") || t == "e" || t.contains("Ok(mid)") {
                n += 1;
            }
        }
    }
    if n >= 2 {
        cx.ok(rule, &format!("{} parenthesised Atom alternatives return the inner node unchanged (paren-transparent)", n));
    } else {
        cx.fail(rule, &format!("{}/paren-transparent", rule), "parser/src/python.lalrpop", "could not find the paren-transparent Atom alternatives (anchor moved: fail closed)");
    }
}


/// O2: a list that an action builds by appending grows in source order.
pub fn list_building_order(cx: &mut Ctx, g: &Grammar, rule: &str) {
    cx.rule(rule, "lists keep source order: in every grammar action, successive `v.push(x)` / `v.extend(xs)` / `v.push_str(s)` on one vector append values whose grammar bindings occur in that order in the alternative (and after the binding the vector itself comes from), and `v.insert(0, x)` prepends a binding that precedes it — statements joined by `;`, decorators, elif clauses, comparison chains and argument lists cannot come out permuted");
    cx.floor(rule, 8);
    for (d, a, e) in actions(g) {
        let mut flow = Flow::with_locations(a, false);
        flow.run_expr(e);
        // appends in evaluation (source text) order
        let mut calls: Vec<(String, String, syn::Expr, usize)> = vec![]; // (receiver, method, value, line)
        sm::for_each_expr(e, |x| {
            if let syn::Expr::MethodCall(mc) = x {
                let m = mc.method.to_string();
                if let Some(recv) = sm::as_ident(sm::peel(&mc.receiver)) {
                    if (m == "push" || m == "extend" || m == "push_str") && mc.args.len() == 1 {
                        calls.push((recv, m, mc.args[0].clone(), sm::line(mc.method.span())));
                    } else if m == "insert" && mc.args.len() == 2 && sm::tsc(&mc.args[0]) == "0" {
                        calls.push((recv, "insert0".into(), mc.args[1].clone(), sm::line(mc.method.span())));
                    }
                }
            }
        });
        if calls.is_empty() {
            continue;
        }
        let mut receivers: Vec<String> = vec![];
        for c in &calls {
            if !receivers.contains(&c.0) {
                receivers.push(c.0.clone());
            }
        }
        for r in receivers {
            // where the vector itself comes from (a binding of the alternative), if it does
            // (read before the action runs: appending joins the appended positions into the vector's own)
            let recv_expr: syn::Expr = syn::parse_str(&r).unwrap();
            let flow0 = Flow::with_locations(a, false);
            let (mut last, _) = flow0.pos_of(&recv_expr);
            let mut first = last.clone();
            let mut ok = true;
            let mut n = 0;
            for (_, m, val, _line) in calls.iter().filter(|c| c.0 == r) {
                let (p, unknown) = flow.pos_of(val);
                let Some(p) = p else { continue };
                if unknown {
                    continue;
                }
                n += 1;
                if m == "insert0" {
                    if let Some(f) = &first {
                        if !(p.hi <= f.lo) {
                            ok = false;
                            cx.fail(rule, &format!("{}/{}/{}", rule, alt_key(d, a), r), &lal(a), &format!("`{}.insert(0, {})` prepends a value that does not precede the list's first element in the alternative", r, sm::tsc(val)));
                        }
                    }
                    first = Some(p);
                } else {
                    if let Some(l) = &last {
                        if !(l.hi <= p.lo) && !(l.lo == p.lo && l.hi == p.hi) {
                            ok = false;
                            cx.fail(rule, &format!("{}/{}/{}", rule, alt_key(d, a), r), &lal(a), &format!("`{}.{}({})` appends a value whose binding comes BEFORE what the list already holds: the list is no longer in source order", r, m, sm::tsc(val)));
                        }
                    }
                    if first.is_none() {
                        first = Some(p.clone());
                    }
                    last = Some(p);
                }
            }
            if ok && n > 0 {
                cx.ok(rule, &format!("{}: `{}` grows in source order ({} appends)", alt_key(d, a), r, n));
            }
        }
    }
}

/// E1: which expression level each position of the grammar accepts.
/// The reviewed wiring is refdata/expr_wiring.json (regenerate with `rpverif dump-expr-wiring` from the reviewed tree):
/// per nonterminal, the set of (macro condition of the alternative, preceding terminal if the previous symbol is one,
/// the symbol that contains the expression with expression nonterminals masked, the expression nonterminal).
pub fn expr_wiring_of(g: &Grammar) -> Vec<(String, String, String, String, String)> {
    fn is_expr_nt(g: &Grammar, name: &str) -> bool {
        g.def(name).map_or(false, |d| d.ty.as_deref().map_or(false, |t| t.replace(' ', "") == "ast::Expr"))
    }
    fn mask(g: &Grammar, s: &crate::grammar::Sym, params: &[String], levels: &mut Vec<String>) -> String {
        use crate::grammar::SymKind;
        let base = match &s.kind {
            SymKind::Term(t) => format!("{:?}", t),
            SymKind::Name(n) => {
                if is_expr_nt(g, n) {
                    levels.push(n.clone());
                    "E".to_string()
                } else if params.contains(n) {
                    // a macro parameter stands for whatever the instantiation passes
                    "P".to_string()
                } else {
                    n.clone()
                }
            }
            SymKind::Macro(n, args) => {
                if is_expr_nt(g, n) {
                    levels.push(format!("{}<{}>", n, args.iter().map(crate::grammar::sym_text).collect::<Vec<_>>().join(", ")));
                    "E".to_string()
                } else {
                    format!("{}<{}>", n, args.iter().map(|x| mask(g, x, params, levels)).collect::<Vec<_>>().join(", "))
                }
            }
            SymKind::Group(v) => format!("({})", v.iter().filter(|x| !matches!(x.kind, SymKind::Lookahead | SymKind::Lookbehind)).map(|x| mask(g, x, params, levels)).collect::<Vec<_>>().join(" ")),
            SymKind::Lookahead => "@L".into(),
            SymKind::Lookbehind => "@R".into(),
        };
        format!("{}{}", base, s.rep)
    }
    let mut out = vec![];
    for d in &g.defs {
        for a in &d.alts {
            let cond = a.cond.as_ref().map(|(p, eq, lit)| format!("{}{}{}", p, if *eq { "==" } else { "!=" }, lit)).unwrap_or_default();
            // position captures are not part of the language
            let syms: Vec<&crate::grammar::Sym> = a.syms.iter().filter(|s| !matches!(s.kind, SymKind::Lookahead | SymKind::Lookbehind)).collect();
            for (i, s) in syms.iter().enumerate() {
                let mut levels = vec![];
                let container = mask(g, s, &d.params, &mut levels);
                if levels.is_empty() {
                    continue;
                }
                let prev = match i.checked_sub(1).map(|k| &syms[k].kind) {
                    Some(SymKind::Term(t)) => format!("{:?}", t),
                    Some(_) => "·".to_string(),
                    None => "^".to_string(),
                };
                for l in levels {
                    out.push((d.name.clone(), cond.clone(), prev.clone(), container.clone(), l));
                }
            }
        }
    }
    out.sort();
    out.dedup();
    out
}

pub fn expr_wiring(cx: &mut Ctx, g: &Grammar, rule: &str) {
    cx.rule(rule, "the grammar's productions are the reviewed ones up to factoring: the normal form of python.lalrpop (macros instantiated, conditions applied, captures / bindings / actions dropped, `X?` expanded, groups spliced, non-recursive helper nonterminals substituted, recursive helpers named by their shape; tools/rpverif/src/gnf.rs) equals refdata/grammar_normal_form.json anchor by anchor — so every place where the grammar accepts an expression takes the reviewed precedence level (a narrower level rejects valid programs or makes acceptance depend on redundant parentheses, a wider one accepts invalid programs, swapped operands change associativity), no alternative is added, dropped or re-conditioned; splitting or merging alternatives, introducing or inlining helper nonterminals, expanding a macro by hand, reordering alternatives and renaming bindings or nonterminals leave the normal form unchanged");
    cx.floor(rule, 150);
    let refd = match tables::refdata(&cx.verif, "grammar_normal_form.json") {
        Ok(v) => v,
        Err(e) => return cx.anchor_missing(rule, &e),
    };
    cx.refdata.insert("grammar_normal_form.json".into());
    let names = match tables::refdata(&cx.verif, "nonterminals.json") {
        Ok(v) => v,
        Err(e) => return cx.anchor_missing(rule, &e),
    };
    let reviewed: BTreeSet<String> = names.as_array().cloned().unwrap_or_default().iter().filter_map(|r| r.get(0)?.as_str().map(|s| s.to_string())).collect();
    let got = match crate::gnf::normal_form(g, &reviewed) {
        Ok(n) => n,
        Err(e) => return cx.fail(rule, &format!("{}/normal-form", rule), "parser/src/python.lalrpop", &format!("the grammar's normal form cannot be computed: {}", e)),
    };
    let want: BTreeMap<String, BTreeSet<String>> = refd.as_object().map(|o| o.iter().map(|(k, v)| (k.clone(), v.as_array().map(|a| a.iter().filter_map(|x| x.as_str().map(|s| s.to_string())).collect()).unwrap_or_default())).collect()).unwrap_or_default();
    for (anchor, prods) in &got {
        match want.get(anchor) {
            Some(w) => {
                let added: Vec<&String> = prods.difference(w).collect();
                let removed: Vec<&String> = w.difference(prods).collect();
                if added.is_empty() && removed.is_empty() {
                    for _ in 0..prods.len().max(1) {
                        cx.ok_trivial(rule);
                    }
                } else {
                    let show = |v: &Vec<&String>| v.iter().take(3).map(|s| format!("`{}`", s)).collect::<Vec<_>>().join(", ");
                    cx.fail(rule, &format!("{}/{}", rule, anchor), "parser/src/python.lalrpop", &format!("{}: productions differ from the reviewed grammar — new: [{}]; no longer derivable: [{}]", anchor, show(&added), show(&removed)));
                }
            }
            None => cx.fail(rule, &format!("{}/{}/new", rule, anchor), "parser/src/python.lalrpop", &format!("{} is not an anchor of the reviewed normal form", anchor)),
        }
    }
    for anchor in want.keys() {
        if !got.contains_key(anchor) {
            cx.fail(rule, &format!("{}/{}/missing", rule, anchor), "parser/src/python.lalrpop", &format!("the reviewed anchor {} no longer exists in the grammar (or is no longer reachable in this instantiation)", anchor));
        }
    }
    cx.ok(rule, "the normal form of the grammar equals the reviewed one");
}
