//! C14 — parameter-list form conversions keep every parameter: list-provenance interpretation of
//! to_python_arguments / into_python_arguments / into_arguments (DESIGN §4 C14, A.6).

use crate::report::Ctx;
use crate::srcmodel::{self as sm, Src};
use std::collections::BTreeMap;

#[derive(Debug, Clone, PartialEq)]
struct Seg {
    src: String,
    filt: &'static str, // all | withdef | nodef
    proj: String,       // arg | default | paired(<pad source>)
}

type ListVal = Vec<Seg>;

fn seg(src: &str, filt: &'static str, proj: &str) -> Seg {
    Seg { src: src.to_string(), filt, proj: proj.to_string() }
}

fn show(l: &ListVal) -> String {
    if l.is_empty() {
        return "[]".into();
    }
    l.iter().map(|s| format!("{}[{}].{}", s.src, s.filt, s.proj)).collect::<Vec<_>>().join(" ++ ")
}

struct Interp {
    sources: Vec<String>,               // destructured fields
    lists: BTreeMap<String, ListVal>,   // built vectors
    pads: BTreeMap<String, (String, BTreeMap<String, i64>, Vec<String>)>, // padded var -> (source, linear form of pad count, non-source vars used)
    scalars: BTreeMap<String, syn::Expr>,
    problems: Vec<String>,
    drains: Vec<(String, String)>,      // (padded var, drain range text) in order
}

impl Interp {
    fn linear(&self, e: &syn::Expr, sign: i64, out: &mut BTreeMap<String, i64>, foreign: &mut Vec<String>) {
        match e {
            syn::Expr::Paren(p) => self.linear(&p.expr, sign, out, foreign),
            syn::Expr::Binary(b) => match b.op {
                syn::BinOp::Add(_) => {
                    self.linear(&b.left, sign, out, foreign);
                    self.linear(&b.right, sign, out, foreign);
                }
                syn::BinOp::Sub(_) => {
                    self.linear(&b.left, sign, out, foreign);
                    self.linear(&b.right, -sign, out, foreign);
                }
                _ => foreign.push(sm::tsc(e)),
            },
            syn::Expr::MethodCall(mc) if mc.method == "len" && mc.args.is_empty() => {
                let r = sm::tsc(&mc.receiver);
                if self.sources.contains(&r) {
                    *out.entry(r).or_insert(0) += sign;
                } else {
                    foreign.push(format!("{}.len()", r));
                }
            }
            syn::Expr::MethodCall(mc) if mc.method == "saturating_sub" && mc.args.len() == 1 => {
                self.linear(&mc.receiver, sign, out, foreign);
                self.linear(&mc.args[0], -sign, out, foreign);
            }
            syn::Expr::Path(_) => {
                if let Some(id) = sm::as_ident(e) {
                    if let Some(d) = self.scalars.get(&id) {
                        let d = d.clone();
                        self.linear(&d, sign, out, foreign);
                        return;
                    }
                }
                foreign.push(sm::tsc(e));
            }
            _ => foreign.push(sm::tsc(e)),
        }
    }

    /// `std::iter::repeat_with(|| None).take(N).chain(SRC.into_iter().map(Some)).collect()`
    fn as_padding(&self, e: &syn::Expr) -> Option<(String, BTreeMap<String, i64>, Vec<String>)> {
        let (root, chain) = sm::method_chain(e);
        let names: Vec<&str> = chain.iter().map(|c| c.0.as_str()).collect();
        if names != ["take", "chain", "collect"] {
            return None;
        }
        let rt = sm::tsc(root);
        if !(rt.ends_with("repeat_with(||None)")) {
            return None;
        }
        let mut lin = BTreeMap::new();
        let mut foreign = vec![];
        self.linear(chain[0].1.get(0)?, 1, &mut lin, &mut foreign);
        let (r2, c2) = sm::method_chain(chain[1].1.get(0)?);
        let n2: Vec<&str> = c2.iter().map(|c| c.0.as_str()).collect();
        if n2 != ["into_iter", "map"] || sm::tsc(c2[1].1.get(0)?) != "Some" {
            return None;
        }
        Some((sm::tsc(r2), lin, foreign))
    }

    fn run_block(&mut self, b: &syn::Block, ctx: Option<(&str, &'static str, &BTreeMap<String, String>)>) {
        for s in &b.stmts {
            match s {
                syn::Stmt::Local(l) => self.local(l, ctx),
                syn::Stmt::Expr(e, _) => self.expr(e, ctx),
                _ => {}
            }
        }
    }

    fn local(&mut self, l: &syn::Local, ctx: Option<(&str, &'static str, &BTreeMap<String, String>)>) {
        let Some(init) = &l.init else { return };
        let e = &*init.expr;
        let t = sm::tsx(e);
        // destructuring of self
        if let syn::Pat::Struct(ps) = &l.pat {
            if t == "self" {
                for f in &ps.fields {
                    let member = sm::ts(&f.member);
                    let mut ids = vec![];
                    sm::pat_idents(&f.pat, &mut ids);
                    if ids.first().map(|s| s.as_str()) != Some(member.as_str()) {
                        self.problems.push(format!("field `{}` is destructured under another name", member));
                    }
                    self.sources.push(member);
                }
                if ps.rest.is_some() {
                    self.problems.push("destructuring of self drops fields with `..`".into());
                }
                return;
            }
        }
        let mut ids = vec![];
        sm::pat_idents(&l.pat, &mut ids);
        if ids.len() == 1 {
            let v = ids[0].clone();
            if t.starts_with("Vec::with_capacity(") || t == "Vec::new()" || t == "vec![]" {
                self.lists.insert(v, vec![]);
                return;
            }
            if let Some(p) = self.as_padding(e) {
                self.pads.insert(v, p);
                return;
            }
            // scalar definitions (lengths)
            if t.contains(".len()") {
                self.scalars.insert(v, e.clone());
                return;
            }
        }
        // inside a loop: let (arg, default) = x.to_arg() / into_arg(); let arg = from_arg(..)
        if ctx.is_some() {
            return;
        }
        self.problems.push(format!("unrecognised statement `let {} = {}`", sm::tsc(&l.pat), t));
    }

    fn expr(&mut self, e: &syn::Expr, ctx: Option<(&str, &'static str, &BTreeMap<String, String>)>) {
        match e {
            syn::Expr::ForLoop(fl) => {
                let it = sm::tsc(&fl.expr);
                let mut names: BTreeMap<String, String> = BTreeMap::new(); // local -> projection
                let (src, paired): (String, Option<String>) = if self.sources.contains(&it) {
                    (it.clone(), None)
                } else if let syn::Expr::Call(c) = &*fl.expr {
                    // std::iter::zip(SRC, PADDED[.drain(r)])
                    if sm::tsc(&c.func).ends_with("zip") && c.args.len() == 2 {
                        let a = sm::tsc(&c.args[0]);
                        let (r, ch) = sm::method_chain(&c.args[1]);
                        let pv = sm::tsc(r);
                        if let Some((m, args)) = ch.first() {
                            if m == "drain" {
                                self.drains.push((pv.clone(), args.first().map(|x| sm::tsc(*x)).unwrap_or_default()));
                            } else {
                                self.problems.push(format!("unexpected adapter `{}` on the padded defaults", m));
                            }
                        }
                        (a, Some(pv))
                    } else {
                        self.problems.push(format!("unrecognised iteration `{}`", it));
                        return;
                    }
                } else {
                    self.problems.push(format!("unrecognised iteration `{}`", it));
                    return;
                };
                if !self.sources.contains(&src) {
                    self.problems.push(format!("loop iterates `{}`, which is not a field of self", src));
                    return;
                }
                // loop pattern
                let mut ids = vec![];
                sm::pat_idents(&fl.pat, &mut ids);
                match (&paired, ids.as_slice()) {
                    (None, [x]) => {
                        names.insert(x.clone(), "elem".into());
                    }
                    (Some(p), [a, d]) => {
                        names.insert(a.clone(), "arg".into());
                        names.insert(d.clone(), format!("pad:{}", p));
                    }
                    _ => self.problems.push("unexpected loop pattern".into()),
                }
                // body
                self.loop_body(&fl.body, &src, "all", &mut names);
            }
            syn::Expr::MethodCall(mc) => {
                let recv = sm::tsc(&mc.receiver);
                let m = mc.method.to_string();
                if self.lists.contains_key(&recv) && ctx.is_none() {
                    match m.as_str() {
                        "extend" if mc.args.len() == 1 => {
                            let a = sm::tsc(&mc.args[0]);
                            match self.lists.get(&a).cloned() {
                                Some(w) => self.lists.get_mut(&recv).unwrap().extend(w),
                                None => self.problems.push(format!("`{}.extend({})`: argument is not a tracked list", recv, a)),
                            }
                        }
                        other => self.problems.push(format!("operation `{}.{}(..)` on a tracked list is not order/cardinality preserving or not recognised", recv, other)),
                    }
                } else if self.lists.contains_key(&recv) || self.pads.contains_key(&recv) || self.sources.contains(&recv) {
                    self.problems.push(format!("operation `{}.{}(..)` is not recognised", recv, m));
                }
            }
            syn::Expr::Macro(m) => {
                // debug_assert_eq!(args_len, defaults.len()) and friends are ignored
                let name = sm::tsc(&m.mac.path);
                if !name.starts_with("debug_assert") && !name.starts_with("assert") {
                    self.problems.push(format!("unrecognised macro `{}`", name));
                }
            }
            syn::Expr::Struct(_) => {}
            other => self.problems.push(format!("unrecognised statement `{}`", sm::tsc(other).chars().take(60).collect::<String>())),
        }
    }

    fn loop_body(&mut self, b: &syn::Block, src: &str, filt: &'static str, names: &mut BTreeMap<String, String>) {
        for s in &b.stmts {
            match s {
                syn::Stmt::Local(l) => {
                    let Some(init) = &l.init else { continue };
                    let t = sm::tsx(&init.expr);
                    let mut ids = vec![];
                    sm::pat_idents(&l.pat, &mut ids);
                    // let (arg, default) = x.to_arg() | x.into_arg()
                    let elem = names.iter().find(|(_, p)| *p == "elem").map(|(n, _)| n.clone());
                    if let Some(x) = &elem {
                        if (t == format!("{}.to_arg()", x) || t == format!("{}.into_arg()", x)) && ids.len() == 2 {
                            names.insert(ids[0].clone(), "arg".into());
                            names.insert(ids[1].clone(), "default?".into());
                            continue;
                        }
                    }
                    // let arg = ArgWithDefault::from_arg(arg, default)
                    if let syn::Expr::Call(c) = &*init.expr {
                        if sm::tsc(&c.func).ends_with("from_arg") && c.args.len() == 2 && ids.len() == 1 {
                            let a = names.get(&sm::tsc(&c.args[0])).cloned().unwrap_or_default();
                            let d = names.get(&sm::tsc(&c.args[1])).cloned().unwrap_or_default();
                            if a == "arg" && d.starts_with("pad:") {
                                names.insert(ids[0].clone(), format!("paired({})", &d[4..]));
                                continue;
                            }
                            self.problems.push(format!("from_arg receives ({}, {})", a, d));
                            continue;
                        }
                    }
                    self.problems.push(format!("unrecognised loop statement `{}`", sm::tsc(l)));
                }
                syn::Stmt::Expr(e, _) => match e {
                    syn::Expr::If(_) | syn::Expr::Match(_) => {
                        // if let Some(default) = default { A } else { B }   (or its match form)
                        if let Some(il) = sm::if_let_form(e) {
                            let scrut = sm::tsc(il.scrut);
                            if names.get(&scrut).map(|s| s.as_str()) == Some("default?") && sm::tsc(il.pat).starts_with("Some(") {
                                let mut ids = vec![];
                                sm::pat_idents(il.pat, &mut ids);
                                let mut n2 = names.clone();
                                if let Some(d) = ids.first() {
                                    n2.insert(d.clone(), "default".into());
                                }
                                if filt != "all" {
                                    self.problems.push("nested default tests".into());
                                }
                                self.loop_body(&il.then_block, src, "withdef", &mut n2);
                                if let Some(b) = &il.else_block {
                                    let mut n3 = names.clone();
                                    self.loop_body(b, src, "nodef", &mut n3);
                                }
                                continue;
                            }
                        }
                        self.problems.push(format!("unrecognised condition in a conversion loop: `{}`", sm::tsc(e).chars().take(60).collect::<String>()));
                    }
                    syn::Expr::MethodCall(mc) if mc.method == "push" && mc.args.len() == 1 => {
                        let v = sm::tsc(&mc.receiver);
                        let a = sm::tsc(&mc.args[0]);
                        let a_name = a.trim_start_matches('*').to_string();
                        let mut proj = names.get(&a_name).cloned().unwrap_or_default();
                        // push(ArgWithDefault::from_arg(arg, default)) without the intermediate local
                        if let syn::Expr::Call(c) = &mc.args[0] {
                            if sm::tsc(&c.func).ends_with("from_arg") && c.args.len() == 2 {
                                let pa = names.get(&sm::tsc(&c.args[0])).cloned().unwrap_or_default();
                                let pd = names.get(&sm::tsc(&c.args[1])).cloned().unwrap_or_default();
                                if pa == "arg" && pd.starts_with("pad:") {
                                    proj = format!("paired({})", &pd[4..]);
                                } else {
                                    self.problems.push(format!("from_arg receives ({}, {})", pa, pd));
                                    continue;
                                }
                            }
                        }
                        let proj = match proj.as_str() {
                            "arg" => "arg".to_string(),
                            "default" => "default".to_string(),
                            p if p.starts_with("paired(") => p.to_string(),
                            other => {
                                self.problems.push(format!("`{}.push({})` pushes a value of unknown provenance ({})", v, a, other));
                                continue;
                            }
                        };
                        match self.lists.get_mut(&v) {
                            Some(l) => {
                                // consecutive pushes of the same segment inside one iteration would duplicate
                                if l.last() == Some(&Seg { src: src.to_string(), filt, proj: proj.clone() }) {
                                    self.problems.push(format!("`{}` receives the same element twice per iteration", v));
                                }
                                l.push(Seg { src: src.to_string(), filt, proj });
                            }
                            None => self.problems.push(format!("push into untracked `{}`", v)),
                        }
                    }
                    other => self.problems.push(format!("unrecognised loop statement `{}`", sm::tsc(other).chars().take(60).collect::<String>())),
                },
                _ => {}
            }
        }
    }
}

fn result_literal(f: &syn::ImplItemFn) -> Option<&syn::ExprStruct> {
    match f.block.stmts.last() {
        Some(syn::Stmt::Expr(syn::Expr::Struct(s), None)) => Some(s),
        _ => None,
    }
}

fn analyse(f: &syn::ImplItemFn) -> (Interp, BTreeMap<String, String>) {
    let mut it = Interp { sources: vec![], lists: BTreeMap::new(), pads: BTreeMap::new(), scalars: BTreeMap::new(), problems: vec![], drains: vec![] };
    it.run_block(&f.block, None);
    let mut fields = BTreeMap::new();
    match result_literal(f) {
        Some(s) => {
            for fv in &s.fields {
                let name = sm::ts(&fv.member);
                let val = sm::tsc(&fv.expr);
                let base = val.trim_end_matches(".clone()").to_string();
                let shown = if let Some(l) = it.lists.get(&base) {
                    show(l)
                } else if it.sources.contains(&base) {
                    format!("={}", base)
                } else {
                    format!("?{}", val)
                };
                fields.insert(name, shown);
            }
        }
        None => it.problems.push("function does not end in a struct literal".into()),
    }
    (it, fields)
}

pub fn run(cx: &mut Ctx) {
    let g = match sm::load(&cx.repo, "ast/src/generic.rs") {
        Ok(s) => s,
        Err(e) => return cx.anchor_missing("C14", &e),
    };
    cx.rule("C14.F1", "list-provenance interpretation of to_python_arguments and into_python_arguments: each output list is exactly its source list (posonlyargs, args in positional order; defaults = defaults of posonlyargs then of args; kwonlyargs = those without default then those with, stable; kw_defaults = the defaults of the latter, in the same order); vararg, kwarg and range flow from the same-named fields; only push/extend build the lists (no sort/reverse/insert/truncate); the two siblings compute the same abstract result");
    cx.rule("C14.L1", "PythonArguments::into_arguments re-attaches defaults by padding: the pad count of each default list is (length of the parameter list(s) it is zipped with) - (number of defaults), computed from the source lists only; positional defaults are split by draining the tail for `args` first and the rest for `posonlyargs`; every zip pairs a parameter list with its own padded list; a length read from a freshly created vector is a stated-belief contradiction");
    cx.floor("C14.F1", 17);
    cx.floor("C14.L1", 8);
    cx.unit("conversion functions analysed", 3);

    let spec: BTreeMap<&str, &str> = [
        ("range", "=range"),
        ("posonlyargs", "posonlyargs[all].arg"),
        ("args", "args[all].arg"),
        ("defaults", "posonlyargs[withdef].default ++ args[withdef].default"),
        ("vararg", "=vararg"),
        ("kwonlyargs", "kwonlyargs[nodef].arg ++ kwonlyargs[withdef].arg"),
        ("kw_defaults", "kwonlyargs[withdef].default"),
        ("kwarg", "=kwarg"),
    ]
    .into_iter()
    .collect();
    let mut results: Vec<BTreeMap<String, String>> = vec![];
    for name in ["to_python_arguments", "into_python_arguments"] {
        let Some(f) = g.method("Arguments", name) else {
            cx.anchor_missing("C14.F1", &format!("Arguments::{}", name));
            continue;
        };
        let (it, fields) = analyse(f);
        for p in &it.problems {
            cx.fail("C14.F1", &format!("C14.F1/{}/unrecognised/{}", name, p.chars().take(50).collect::<String>()), &g.loc(f), &format!("{}: {}", name, p));
        }
        for (k, want) in &spec {
            match fields.get(*k) {
                Some(got) if got == want => cx.ok("C14.F1", &format!("{}: {} = {}", name, k, got)),
                Some(got) => {
                    let key = if *k == "kwonlyargs" || *k == "kw_defaults" { format!("C14.K1/{}/{}", name, k) } else { format!("C14.F1/{}/{}", name, k) };
                    cx.fail("C14.F1", &key, &g.loc(f), &format!("{}: `{}` is built as {} but must be {}", name, k, got, want));
                }
                None => cx.fail("C14.F1", &format!("C14.F1/{}/{}/missing", name, k), &g.loc(f), &format!("{}: result has no field `{}`", name, k)),
            }
        }
        results.push(fields);
    }
    if results.len() == 2 {
        if results[0] == results[1] {
            cx.ok("C14.F1", "to_python_arguments and into_python_arguments compute the same abstract result");
        } else {
            cx.fail("C14.F1", "C14.F1/siblings", &g.rel, &format!("the borrowing and consuming conversions disagree: {:?} vs {:?}", results[0], results[1]));
        }
    }
    // From<Arguments> for PythonArguments delegates
    let t = sm::tsx(&g.file);
    if t.contains("impl<R>From<Arguments<R>>forPythonArguments<R>{fnfrom(arguments:Arguments<R>)->Self{arguments.into_python_arguments()}}") {
        cx.ok("C14.F1", "From<Arguments> for PythonArguments = into_python_arguments");
    } else {
        cx.fail("C14.F1", "C14.F1/from-impl", &g.rel, "From<Arguments> for PythonArguments does not delegate to into_python_arguments");
    }

    // into_arguments
    let Some(f) = g.method("PythonArguments", "into_arguments") else { return cx.anchor_missing("C14.L1", "PythonArguments::into_arguments") };
    let (it, fields) = analyse(f);
    for p in &it.problems {
        cx.fail("C14.L1", &format!("C14.L1/unrecognised/{}", p.chars().take(50).collect::<String>()), &g.loc(f), &format!("into_arguments: {}", p));
    }
    let want_pads: [(&str, &str, Vec<(&str, i64)>); 2] = [
        ("defaults", "defaults", vec![("posonlyargs", 1), ("args", 1), ("defaults", -1)]),
        ("kw_defaults", "kw_defaults", vec![("kwonlyargs", 1), ("kw_defaults", -1)]),
    ];
    for (var, src, lin) in want_pads {
        let key = format!("C14.L1/pad/{}", var);
        match it.pads.get(var) {
            None => cx.fail("C14.L1", &key, &g.loc(f), &format!("`{}` is not rebuilt as None-padding ++ {}.into_iter().map(Some)", var, src)),
            Some((s, l, foreign)) => {
                let want: BTreeMap<String, i64> = lin.iter().map(|(k, v)| (k.to_string(), *v)).collect();
                let got: BTreeMap<String, i64> = l.iter().filter(|(_, v)| **v != 0).map(|(k, v)| (k.clone(), *v)).collect();
                if !foreign.is_empty() {
                    cx.fail("C14.L1", &format!("C14.L2/{}", var), &g.loc(f), &format!("the pad count of `{}` reads {:?}: a length that is not one of the input lists (a freshly created vector has length 0, so nothing is padded and zip drops parameters)", var, foreign));
                } else if s != src || got != want {
                    cx.fail("C14.L1", &key, &g.loc(f), &format!("`{}` is padded with {:?} Nones in front of `{}`; expected {:?} in front of `{}`", var, got, s, want, src));
                } else {
                    cx.ok("C14.L1", &format!("{}: None x ({}) ++ {}.map(Some)", var, lin.iter().map(|(k, v)| format!("{}{}", if *v > 0 { "+" } else { "-" }, k)).collect::<String>(), src));
                }
            }
        }
    }
    // drains: args take the tail first, then posonlyargs the rest
    let want_drains = vec![("defaults".to_string(), "posonlyargs.len()..".to_string()), ("defaults".to_string(), "..".to_string())];
    if it.drains == want_drains {
        cx.ok("C14.L1", "positional defaults: drain(posonlyargs.len()..) for args first, then drain(..) for posonlyargs");
    } else {
        cx.fail("C14.L1", "C14.L1/drains", &g.loc(f), &format!("padded positional defaults are split by {:?}; expected drain(posonlyargs.len()..) then drain(..)", it.drains));
    }
    let spec2: BTreeMap<&str, &str> = [
        ("range", "=range"),
        ("posonlyargs", "posonlyargs[all].paired(defaults)"),
        ("args", "args[all].paired(defaults)"),
        ("vararg", "=vararg"),
        ("kwonlyargs", "kwonlyargs[all].paired(kw_defaults)"),
        ("kwarg", "=kwarg"),
    ]
    .into_iter()
    .collect();
    for (k, want) in &spec2 {
        match fields.get(*k) {
            Some(got) if got == want => cx.ok("C14.L1", &format!("into_arguments: {} = {}", k, got)),
            Some(got) => cx.fail("C14.L1", &format!("C14.L1/field/{}", k), &g.loc(f), &format!("into_arguments: `{}` is built as {} but must be {}", k, got, want)),
            None => cx.fail("C14.L1", &format!("C14.L1/field/{}/missing", k), &g.loc(f), &format!("into_arguments: result has no field `{}`", k)),
        }
    }
    // the loop that consumes the tail must be the `args` loop: order of loops args-before-posonlyargs is implied by drains + fields
    let _ = Src::loc::<syn::ImplItemFn>;
}
