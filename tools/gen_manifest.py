#!/usr/bin/env python3
"""Regenerates /verif/MANIFEST.json from the table below (development aid; the manifest is committed)."""
import json, sys, os
HERE = os.path.dirname(os.path.dirname(os.path.abspath(__file__)))

NA_FINAL = {
 "C07": "f-string decomposition is decided by a hand-written scanner's value-dependent control flow (delimiter stack, '!'/'='/':' look-ahead); no sound static argument in reach bounds it. The structural facts it rests on (conversion table, re-basing constant, nesting bound, position advancer) are checked under C06/C02/C03.",
 "C15": "boundary-condition arithmetic over text contents (CR at end, CRLF split, BOM, double-ended iteration state); no clause beyond the TextRange constructor invariant (claimed under C02) is visible in the shape of the code.",
 "C17": "per-value exact numerical results (shortest round-trip digits, notation thresholds, %e/%f/%g digits); no static argument bounds them.",
 "C20": "acceptance set and split points of a hand-written scanner defined only by comparison with CPython's; purely value-level.",
}

# id -> (design_ref, technique, level text, level note)
CLAIMED = {}

def claim(pid, ref, technique, text, note):
    CLAIMED[pid] = (ref, technique, text, note)

COMMON_NOTE = " Trusted base: rustc/cargo, syn (parsing), Rust std semantics; reference tables under /verif/refdata where named. A green check means no structural precondition of the property is broken on the current tree; it does not decide the behaviour for all inputs."

claim("C12", "DESIGN.md §4 C12, §3.4",
      "static analysis: field-wise homomorphism of generated fold/visitor code against the AST type definitions (syn), shape rules on Foldable impls and ConstantOptimizer",
      "Decides the structural clauses C12.F1-F4 (every one of the generated struct/enum folds rebuilds every field exactly once from itself, range mapped once with the context taken before children; Foldable for Vec/Option/Box shape-preserving), C12.V1 (default Visitor visits every node-typed field exactly once with the right method; exhaustive dispatch) and C12.O1 (optimizer special-cases only load-context all-constant tuples). Together F1-F4 are a proof by structural induction that an identity folder is the identity and map_user runs once per range-carrying node. These are necessary conditions checked for ALL node kinds, which sampling trees cannot give.",
      "Static rule discharge over ast/src/gen/{generic,fold,visitor}.rs, ast/src/fold.rs, ast/src/optimizer.rs." + COMMON_NOTE)

claim("C01", "DESIGN.md §4 C01, §2.2, §3.1-3.3",
      "static analysis: translation validation of python.rs against lalrpop(python.lalrpop) (G1); table agreement of keyword/operator/start-marker tables against Python 3.11 refdata; dataflow over grammar actions (context discipline, binding-order vs ASDL source order); deviant-alternative rules",
      "Decides structural necessary conditions only: (G1) the compiled python.rs equals the regenerated parser for the checked-in grammar, so every grammar-level rule speaks about the compiled parser; (T1-T4) keyword, operator, operator-tag and start-marker tables equal the Python 3.11 reference tables; (X1) load/store/del discipline: every ctx literal is Load except the two binding targets, all 8 target positions go through set_context, set_context covers every ctx-carrying Expr variant; (O1) in every AST literal of every action the fields take their values from bindings in reference source order (catches swapped operands/branches in any un-snapshotted production); (D1/D2) trailing-comma singleton and paren-sensitive flag deviants; (S1/S2) the soft-keyword pass is a same-range relabelling whose look-ahead flags are top-level-only; (I1, X2) import dots and argument partition order. It does not decide that the grammar accepts exactly Python or that node kinds are the reference's for every program.",
      "Static rule discharge over parser/src/python.lalrpop, python.rs, build.rs, token.rs, soft_keywords.rs, context.rs, function.rs, parser.rs, ast/src/gen/generic.rs; oracle tables refdata/py311_tokens.json, py311_ops.json, asdl_source_order.json; the lalrpop 0.20.2 generator is trusted as the regeneration oracle." + COMMON_NOTE)

claim("C02", "DESIGN.md §4 C02",
      "static analysis: range-capture discipline read off the LALRPOP grammar (capture positions vs symbols, end-of-suite chains), who-may-advance rules for position bookkeeping in lexer.rs/string.rs, path enumeration of Lexer::next_char, abstract execution of the operator arms, Ranged-impl completeness, TextRange literal confinement, G1 translation validation",
      "Decides the range-capture discipline, not equality with CPython's extents: (R1) every returned node's range starts at the @L before the alternative's first symbol and ends at the @R after its last one, or at the end of the trailing suites taken in reverse source order; (R2) no range derived from an expression child's start()/end(); (R3/R3b) per-element and secondary nodes are bracketed by their own captures; (R4) children lie between the parent's captures, lists only pass through order-preserving operations; (R5-R7b) string/f-string ranges: first-start..last-end, re-basing constant = prefix length, StringParser::next_char is the only consumer of the character stream; (N1) only Lexer::next_char advances the position, by exactly the bytes slid (CR LF = 2) and Lexer::new seeds it with the start offset and the BOM's own length; (L1/O1) every token range is get_pos() before the first and after the last consumed character; (R8/W1) Ranged impls complete, TextRange literals confined so start <= end. Six genuine deviants are recorded as known findings.",
      "Static rule discharge over parser/src/python.lalrpop (= python.rs by G1), lexer.rs, string.rs, ast/src/gen/{generic,ranged}.rs, vendored/src/text_size/range.rs." + COMMON_NOTE)

claim("C05", "DESIGN.md §4 C05, App. A.3/A.4",
      "static analysis: abstract execution of every arm of Lexer::consume_character against the Python 3.11 operator trie; path enumeration of Lexer::next_char (byte accounting); emit/pairing/dominance rules for Indent/Dedent/Newline; who-may-write rules for location, window and pending queue; skip-set classification of consuming paths; feature-twin skeleton comparison",
      "Decides emit discipline and table agreement: (O1) all 47 operator tokens: start taken before the first and end after the last consumed character, spelling = reference spelling, implemented trie = reference trie (longest match); (N1) byte accounting of next_char on all 4 path classes and single-writer of location/window; (L1) lex_identifier/number/string ranges and name text; (I1/I2) push<->Indent, pop<->Dedent pairing, EOF flush, Newline only under nesting == 0; (S1) the only consumption without a token is layout/comments/backslash-newline; (Q1) FIFO queue; (W1) indentation counters reset by every non-indentation arm; (T1/T2) keyword/operator tables; (F1) full-lexer statements are position reads/trivia emits and the feature twins consume identically. Not decided: numeric token values (C06), Unicode identifier classification (dependency tables).",
      "Static rule discharge over parser/src/lexer.rs, token.rs, build.rs, python.lalrpop extern block; oracle refdata/py311_tokens.json." + COMMON_NOTE)

claim("C10", "DESIGN.md §4 C10",
      "static analysis: cfg-site inventory and confinement over all configurations at once (syn sees every cfg branch), feature-twin skeleton comparison, filter dominance in front of TopParser, three-way token-kind set agreement, alias/flow rules for OptionalRange and the bigint backends, G1; thorough tier adds the type-checked feature matrix (cargo check, nothing run)",
      "Decides that the features are confined so they cannot change what is parsed: (I1) full-lexer / all-nodes-with-ranges / backend cfg sites occur only in their classified files (none in parser/src for ranges); (F1) full-lexer-gated lexer statements only read positions or emit the two trivia kinds and the lex_comment twins consume the same characters; (F2) the trivia filter sits in parse_filtered_tokens before the only TopParser invocation; (F3) gated kinds = filtered kinds = kinds the soft-keyword pass ignores; (R1) OptionalRange is R or EmptyRange<R>, optional_range flows only into range fields; (B1) backends only through the alias; (U1) feature-dependent todo!() (from_arg) unreachable from the parser; (G1) python.rs = regenerated grammar in every configuration. Thorough: (M1) all 7 supported configurations type-check.",
      "Static rule discharge over all non-test sources of the six crates." + COMMON_NOTE)

claim("C04", "DESIGN.md §4 C04",
      "static analysis: must-call / dominance rules on the LALRPOP grammar (validators first in every consuming action), who-may-consume on the grammar's consumer graph, sibling agreement of the bracket arms and of the non-ASCII predicates, abstract execution of the lexer arms for error exits, G1",
      "Decides that every enforcement site of the parser's own rules exists on every grammar/lexer path that needs it: (V1/V2) Parameters, LambdaDef and every ParameterList alternative call their validators first, and nothing else consumes ParameterList / FunctionArgument / ArgumentList; (V3) validate_arguments covers all five parameter-carrying fields of Arguments and validate_pos_params scans posonlyargs++args once; (V4) parse_args' three error exits and bookkeeping; (V5) the four fallible grammar actions (bare *, (*x), (**x), as _); (L1) bracket arms agree (test nesting == 0 before decrementing), EOF in brackets; (L2/L2b) compare_strict/TabError, dedent loop, TabsAfterSpaces; (L3) unrecognised character, lone !, line continuation, unterminated strings; (N1) numeric shape checks precede consumption; (S1) mixing check before decoding, both non-ASCII-bytes predicates agree, every f-string error kind has a live site; (E1) error kind mapping and exhaustive LALRPOP error mapping. Not decided: that the conditions are exactly Python's for all inputs.",
      "Static rule discharge over parser/src/python.lalrpop (= python.rs by G1), function.rs, lexer.rs, string.rs, parser.rs." + COMMON_NOTE)

claim("C06", "DESIGN.md §4 C06",
      "static analysis: match-arm evaluation of the decoding tables (escape arms, string prefixes, radix prefixes, digit classes, conversion flags) to sets of pairs compared with Python 3.11 reference tables; ordering rules in lex_string; trusted-conversion rules",
      "Decides that the decoding tables equal the reference tables: (E1) all 10 simple escapes, the octal arm ('0'..='7', at most 3 digits, lossless u32 conversion), \\x/\\u/\\U digit counts, text-only guards, backslash-newline, unknown escapes; (P1) all 8+16 prefix spellings, prefix_len, kind predicates, Display; (R1) 0x/0o/0b in both cases and only those, digit classes per radix; (V1) values come from BigInt::from_str_radix / parse::<BigInt> / f64::from_str of the scanned text with only underscores dropped and the exponent marker lower-cased; (S1) escaped quotes/line breaks never terminate a literal, triple-quote detection; (C1) conversion flags; (W1) the repr writers emit only escapes of that table. Not decided: the scanner's acceptance set; correct rounding is std's.",
      "Static rule discharge over parser/src/string.rs, lexer.rs, token.rs, core/src/format.rs, literal/src/escape.rs; oracle refdata/py311_escapes.json; std conversions trusted." + COMMON_NOTE)

claim("C14", "DESIGN.md §4 C14, App. A.6",
      "static analysis: list-provenance abstract interpretation of the three conversion functions (which source list, which default-filter, which projection each output list is built from), linear-form check of the padding counts, sibling agreement",
      "Decides cardinality and field flow for ALL signatures by interpreting the three functions over abstract lists: (F1) to_python_arguments and into_python_arguments build posonlyargs/args in order, defaults = defaults of posonlyargs then args, kwonlyargs = no-default then with-default (stable partition), kw_defaults aligned to that tail, vararg/kwarg/range from the same-named field, using only push/extend, and compute the same abstract result; (L1) into_arguments pads each default list with exactly (parameters - defaults) Nones computed from the input lists (a length read from a freshly created vector is reported), splits the positional padding tail-first, and zips each parameter list with its own padded list. Not decided: default alignment when the documented preconditions (defaults <= parameters) are violated by a hand-built PythonArguments.",
      "Static rule discharge over ast/src/generic.rs." + COMMON_NOTE)

claim("C16", "DESIGN.md §4 C16, App. A.5",
      "static analysis: partition evaluation — the layout pre-pass and the character writer are interpreted (syntax-tree interpreter, nothing compiled or run) on one representative of every cell of the scalar-value space split at all constants they compare against, crossed with the opaque is_printable predicate and both quotes; finite-ordering evaluation of choose_quote; writer/reader escape-table agreement",
      "Decides for ALL code points and bytes (by partition, exhaustively over cells): (A1) the length the layout announces per character equals what write_char emits, for UnicodeEscape and AsciiEscape; (A2) emitted length >= own length with equality iff verbatim, so the fast path is taken iff nothing needs escaping, and AsciiEscape's verbatim cells are printable ASCII (discharging from_utf8_unchecked); (Q1) choose_quote equals Python's rule on every ordering of the two counts, and returns the chosen quote's count; (F1) changed()/write_body/repr framing; (W1) every emitted escape form is in the reference table with the same meaning and digit count. Not decided: identity with CPython's repr where printable status depends on the Unicode tables of a dependency.",
      "Static rule discharge over literal/src/escape.rs; oracle refdata/py311_escapes.json; the interpreter tools/rpverif/src/eval.rs is part of the trusted base." + COMMON_NOTE)

claim("C08", "DESIGN.md §4 C08, §3.6",
      "static analysis: units discipline on positions over resolved MIR call edges (no comparison/conversion of a TextSize/TextRange anywhere in the parser crate), token-payload inventory, paren-transparency of the grammar, skip-set / counter-reset / single-consumer rules of the lexer",
      "Decides that the parser is position-blind and paren-blind and that layout produces no tokens: (B1) nothing in rustpython_parser compares, orders or converts a position (MIR inventory against a reviewed table) so two token streams equal up to ranges give trees equal up to ranges; (B2) no token carries layout; (B3) no parenthesis node, parenthesised atoms return the inner node, the only kind-dependent flag is the excepted AnnAssign.simple; (W1/W2) space, tab, form feed, comments, backslash-newline and blank lines are consumed without tokens and reset the indentation counters; (N1/N2) one normalising consumer folds CR/CR LF and skips the BOM; (I1/I2) no NEWLINE/INDENT/DEDENT inside brackets; (S1/S1b) soft-keyword decisions depend only on bracket depth 0 facts. Not decided: that the lexer yields equal token VALUES for every layout variant (value level).",
      "Static rule discharge over MIR facts of rustpython_parser, parser/src/lexer.rs, token.rs, soft_keywords.rs, python.lalrpop." + COMMON_NOTE)

claim("C09", "DESIGN.md §4 C09, §3.6",
      "static analysis: units discipline over resolved MIR call edges (positions are never compared; literal/Default positions and position arithmetic only at tabled sites), syntactic provenance of every error offset, offset-threading rule on all lexer/parser entry calls, call-graph funnel to parse_filtered_tokens, shape rules on the 55 generated Parse impls",
      "Decides translation invariance by a units argument and the single-funnel structure: (U1) every position is start + consumed bytes ± constant and nothing branches on it; (E2) every error offset is a position expression; (U2) every nested lexer/parser call receives the caller's own offset, zero only in lex/parse/Parse::parse; (N1) the lexer seeds location with the start offset; (F1/F1b) all public entry points reach parse_filtered_tokens (MIR reachability) and Suite/Stmt/Expr/Identifier/Constant project from that tree; (F2) all 55 generated impls delegate and unwrap their own variant; (F3) the full-lexer filter dominates the parser; (M1) mode names; (S1) interactive and module mode start at start-of-line alike. Two known findings: the offset-less token-stream API cannot place the mode marker / the empty-Stmt error at the start offset.",
      "Static rule discharge over MIR facts and parser/src/{lexer,parser,string,function,soft_keywords}.rs, gen/parse.rs, core/src/mode.rs." + COMMON_NOTE)

claim("C11", "DESIGN.md §4 C11",
      "static analysis: the unparser's precedence constants, group_if! levels and the level passed at every unparse_expr call / Display use are extracted (macro bodies parsed) and compared with the grammar's expression chain and a position table whose every entry is re-verified against a witness in the grammar; operator spellings against refdata",
      "Decides precedence and spelling agreement for every (parent, child position): (P0) constants follow the grammar chain read from its pass-through alternatives; (P1) every kind is parenthesised at or below the nonterminal that builds it; (P2) every child is rendered at a level >= what the grammar requires there, for all 75 positions and all operators, and no call site is unclassified; (P3) associativity sides; (S1) 29 operator spellings; (X1) exhaustive match. Since the parenthesised atom returns its inner node, any position can hold any expression, so P2 is a genuine necessary condition of reparsing. Not decided: constant rendering, f-string quoting, fixed-point as such.",
      "Static rule discharge over ast/src/unparse.rs, ast/src/generic.rs, python.lalrpop; oracle refdata/unparse_positions.json (witness-checked), py311_ops.json." + COMMON_NOTE)

claim("C13", "DESIGN.md §4 C13",
      "static analysis: effective linear fold order per node kind (generated fold or LinearLocator override) against the reference source order; interleaving rule; fold-contract shape of overrides; sibling agreement of the three locators; line-break byte-set agreement across line index / newline iterator / linear locator / lexer; def-use rule on the selected line state",
      "Decides source-order consistency and sibling agreement, not the line/column arithmetic: (O1) for all node kinds the fold visits range-carrying children in source order; (O2) the four interleaved pairs are zipped or located by look-ahead; (O3) overrides fold decorators before the node start and keep the fold contract; (S1) Random/Linear locators agree up to the locate call, the look-ahead one only uses locate_only; (T1) all components treat exactly LF and CR (CR LF once) as line breaks; (S2) locate_inner reads line facts only through the selected state; (R1) under all-nodes-with-ranges the optional-range nodes are monotone (three known findings shared with C02).",
      "Static rule discharge over ast/src/source_locator.rs, gen/fold.rs, gen/generic.rs, core/src/source_code.rs, vendored/src/source_location/*.rs, parser/src/lexer.rs." + COMMON_NOTE)

claim("C03", "DESIGN.md §4 C03, §3.5",
      "static analysis: panic-obligation inventory from resolved MIR (every unwrap/expect/panic/index/remove/TextRange::new/TextSize arithmetic/unchecked call and every Overflow/Bounds/Division assert outside the LALRPOP internals, which G1 covers) against a reviewed site table; flow-sensitive dominance check of every next_char().unwrap(); grammar non-emptiness and nullability rules for action unwraps and asserting range constructors; structural loop-progress rule; SCC recursion inventory of the call graph; error-offset provenance; unsafe inventory",
      "Decides: (N1) no panic-capable site exists in rustpython_parser beyond the 63 reviewed (function, kind) rows, each with a discharge rule; (D.some/D.const) every next_char().unwrap() is dominated by a Some-test of the window slot with no consumption in between, window indices are constants, hex/octal escape arithmetic is bounded by literal digit counts, length-dependent indexing sits in the arm fixing the length; (A1/R1) every unwrap in a grammar action is a validated range-end chain or on a grammar-non-empty value, and every asserting range brackets a non-nullable symbol; (P1) every loop iteration path consumes or exits, EOF ends the token stream; (C1) the only recursive cycles are set_context and the parser<->f-string cycle, cut at nested >= 2 and re-entered on a strict substring; (E1/E2/U2/N2) every LALRPOP error variant is mapped, every error offset is a position inside the input (known: empty Stmt / empty expression input at a non-zero start offset); (U1) two reviewed unsafe blocks. Not decided: the polynomial time bound, stack depth on adversarial nesting, panics inside dependency crates.",
      "Static rule discharge over MIR facts of rustpython_parser and parser/src/*.rs, python.lalrpop. Assumed (printed in the evidence): counters bounded by the input length < 2^32, start offset + length < 2^32 (the property's own quantifier)." + COMMON_NOTE)

claim("C18", "DESIGN.md §4 C18",
      "static analysis: panic-obligation inventory of format.rs from resolved MIR against a reviewed site table; index-provenance rules; finite-domain evaluation of validate_format x get_separator_interval by interpreting the subject's match arms (allowed subset of handled); inverse-table check of FormatType parse/print; parse-order and alignment-order shape rules",
      "Decides no-panic and table agreement, not equality with format(): (N1) no panic-capable site in format.rs beyond the reviewed rows; (N2) every byte index used for slicing/truncation comes from char_indices()/find()/len() of the same string, string precision counts characters before padding, widths/precisions are bounded to i32 at parse time; (T2) for every grouping x presentation type that validate_format lets through and that reaches the separator code, get_separator_interval yields 3 or 4 (never its panic arm); (T1) the 16 presentation types parse and print inversely; (Q1) fields are parsed in mini-language order, trailing text rejected, 0-flag semantics; (A1) per-alignment concatenation order and fill count. Four genuine panics found here were repaired in /repo (see known_findings.json fixed:).",
      "Static rule discharge over MIR facts of rustpython_format and format/src/format.rs. Assumed: rendered numbers are shorter than 2^31 bytes." + COMMON_NOTE)

claim("C19", "DESIGN.md §4 C19",
      "static analysis: panic-obligation inventory of cformat.rs from resolved MIR against a reviewed site table; flow-sensitive dominance of every iter.next().unwrap() by a successful peek(); stated-belief rule on unsigned arithmetic (cmp::max(0, unsigned), raw subtraction); flag/conversion table evaluation; parse-order and padding shape rules",
      "Decides no-panic and table agreement, not equality with the % operator: (N1) no panic-capable site beyond the reviewed rows (the two unreachable! are the documented caller contract); (D.peek) all 9 iter.next().unwrap() follow a peek() that returned Some; (N2) no unsigned underflow: fills use saturating_sub, quantities use checked i32 arithmetic, bytes precision slices at min(len, precision); (T1) 5 flags, 17 conversion characters, at most one length modifier skipped, %c ignores precision; (Q1) key, flags, width, precision, length, type order, %% and trailing-% handling; (A1) LEFT_ADJUST side, sign/prefix before zero fill and counted in the width.",
      "Static rule discharge over MIR facts of rustpython_format and format/src/cformat.rs." + COMMON_NOTE)


# additions made while deepening the checks (appended to the technique / level text of the claim above)
COMMON_TECH = " All rules read the subject's syntax trees in a normal form (if-let/match/matches!/==Some, while-let/loop, let-else, tail return, literal spelling, arm order; tools/rpverif/src/normalize.rs), so they do not depend on how a decision is spelled."
ADD = {
 "C01": ("interpretation of the identifier predicates over all ASCII characters and every XID class (I2); interpretation of the start_of_line update for every token kind (S1); counter-guard and lambda-pairing rules of the soft-keyword look-ahead (S2); exits of lex_normal_number (decisions -> result) for the leading-zero rule (N1); table agreement of the grammar's expression-level wiring with the reviewed relation (E1); source-order rule for lists built by push/extend in actions (O2)",
         " Also: (I2) is_identifier_start/continuation interpreted = Python's identifier grammar; (S2) every write of the look-ahead loops happens at bracket depth 0 and lambda colons are paired by count. (N1) only a non-zero decimal integer is rejected for leading zeros; `007j`, `00.5`, `00` stay valid. (E1) every expression context of the grammar accepts the reviewed level; (O2) lists built in actions grow in source order."),
 "C02": ("scenario execution of Lexer::next_char with evaluated byte amounts (N1); provenance of ranges assigned in function.rs/context.rs/string.rs (R9)",
         " Also: (R9) keyword-argument ranges are exactly the @L/@R pair handed over by the grammar; no hand-written range is derived from a child's start()/end()."),
 "C03": ("site-independent discharges (window indices, position advances, counters, dominated unwraps) applied per site so that extracting a helper does not create an unreviewed obligation; function summaries of the consuming helpers by least fixpoint (P3); dimension analysis of TextSize values over MIR value-flow facts (U2); thorough tier repeats the MIR rules under --features full-lexer and all-nodes-with-ranges; overflow-checked subtractions on unsigned types inventoried as their own kind from MIR binary-operation facts",
         " Also: (P3) every normal-return path of consume_normal/consume_character and of each consuming helper consumes a character or emits a token; (U2) no length or constant flows into a position sink. Unsigned decrements need a reviewed guard (`unsigned-sub` sites)."),
 "C04": ("interpretation of compare_strict over the 3x3 (tabs, spaces) orderings; exit summaries (decisions -> Err/Ok) of validate_pos_params and parse_args independent of return style; structural look-ahead-before-consumption rule for numeric shape checks; exits of lex_normal_number for the placement of the leading-zero error; guard-before-use rule for blank f-string fields (S2); expression-level wiring table (E1)",
         " Also: (S2) an f-string field that is empty after trimming is rejected in both arms that end the expression text. (E1) no context accepts a wider expression level than reviewed."),
 "C05": ("character-class based classification of the layout arms; end-of-input branch read structurally; range check for every token an arm of consume_character emits itself",
         ""),
 "C06": ("radix forwarding rule over the radix-parameterised lexer functions (R2); bound of the \\N{name} length guard compared with the longest name in the locked unicode_names2 data (N2); evaluation of the backslash arm's guard for each of the seven string kinds (K1); exits of lex_normal_number (Z1); thorough tier interprets parse_unicode_literal on every 2-digit and every 4-digit hexadecimal escape; structural rule that every parse_string call decodes one element of the literal list (J1)",
         " Also: (R2) digits, separator look-ahead and value conversion use the literal's own radix; (N2) no known Unicode name is rejected by length. (K1) escapes are decoded exactly in the non-raw kinds; (Z1) multi-digit zeros and zero-led floats/imaginaries keep their values. (J1) implicit concatenation joins decoded values, never source texts."),
 "C08": ("position comparisons only (nothing may branch on a position) instead of arithmetic tables; character-folding scenarios of next_char; three-way agreement of the feature-gated trivia kinds with the interpreted start_of_line update (S2); evaluation of every match on raw window slots over all windows of {LF, CR, letter, end of input} (N3); expression-level wiring table (E1); G1 regeneration as premise of the grammar-level rules",
         " Also: (N3) wherever the raw window is tested for a line break, LF and a lone CR select the same arm. (E1) acceptance does not depend on redundant parentheses: each context accepts the reviewed level."),
 "C09": ("dimension analysis of TextSize values over MIR value-flow facts replaces the literal/arithmetic site tables: positions vs lengths, no position+position, no length flowing into a position sink (D1); relative-advance rule for the lexer position (N1); entry-point mode consistency (F4); in-place subtractions on TextSize must have a provable length operand (D1)",
         " (D1) replaces the tabled-site wording above: every position is start offset + consumed bytes +/- lengths by dimension analysis; (F4) each typed entry point lexes and parses in its own mode."),
 "C10": ("cfg inventory extended to the grammar file (no cfg on a parse-affecting feature in python.lalrpop)", ""),
 "C11": ("lexical separation of word tokens (literal pieces ending/starting in identifier characters are the reviewed ones; the lambda keyword separator interpreted over parameter-list shapes) (K1); f-string field opening decided on the rendered text, braces doubled (F1); exact integrality test of the float renderer (N1); path enumeration of every unparser arm with the set of fields mentioned per path (R1); evaluation of the infinite-constant guards over finite/infinite components (N2); expression-level wiring table (E1); G1 regeneration as premise; thorough tier: escape layout/writer agreement on every scalar value",
         " Also: (K1/F1) the rendering re-lexes into the intended tokens; (N1) only exact integers take the `<digits>.0` rendering; (A1/A2) string and bytes constants are rendered by the escape module, whose layout pre-pass announces exactly the length its writer emits (partition evaluation shared with C16). (R1) no path through an arm renders the node without looking at every field it binds; (N2) `inf` is never written. (E1) associativity and operand levels of the grammar are the reviewed ones the unparser's precedence table is built against."),
 "C12": ("order-preserving element-wise fold recognised as iterator chain, loop or helper", ""),
 "C13": ("re-basing rule for line-break searches on a tail slice (B1)", " Also: (B1) a position found in `&source[a..]` is re-based by `a` (sibling agreement of init and locate_inner)."),
 "C16": ("interpretation of is_printable with the category predicates as free booleans (P1)", " Also: (P1) printable = not Other and not Separator, depending on nothing else."),
 "C18": ("interpretation of add_magnitude_separators over fill x alignment x width (A3); prefix agreement between the width deduction and the printed prefix (A2); repr exponent window and digits/decimal-point agreement of the float renderer (G1); symbolic evaluation of the locators' map_user / fold_expr_joined_str (result term + call trace) and of locate_only for both outcomes of locate_inner; evaluation of the minus-sign condition on -0.0, +/-inf, +/-NaN (S1); empty results of the spec sub-parsers return their input (P2); thorough tier evaluates layout and writer on EVERY Unicode scalar value (x printable x quote) instead of one representative per partition cell; line-end convention of the linear locator (break position + length of the line ending found); layout provenance (a length is only paired with the quote it was computed for, L1); the escape decoder's table as part of the round trip (E1); interpretation of separate_integer / insert_separator over digits x group size x width (A4); structural guards for `.0` without presentation type and for non-finite values (G2)",
         " Also: (A2/A3) sign and radix prefix are counted once and grouped digits are zero-extended only under zero padding; (G1) fixed notation exactly for exponents -4..15. locate_only reports the row of the offset's line. (S1) the sign is the sign bit, NaN excepted; (P2) a `.` without digits is left for the caller to reject. (L1) forced-quote constructors carry no borrowed length. (A4) zero padding under grouping; (G2) format(5.0,'.3') = '5.0', inf / nan are never grouped."),
 "C19": ("idempotent flag accumulation (F1); digits/decimal-point agreement of the float renderer (G1)", " Also: (F1) repeated flag characters keep the flag set; (G1) the `#` point is decided with the digit count that was rendered."),
}

# round 6 (faulty refactorings): rules added for the changes that were missed
ADD6 = {
 "C03": ("branch-condition stacks (if/else, match arms, short-circuit operands) over the syntax tree for the D.digits discharge",
         " (D.digits) every unwrap on a conversion of the number text sits where no float part was appended."),
 "C04": ("the non-zero conjunct of the leading-zero condition evaluated on digit strings (N1); compare_strict uses recognised through map_err (L2)",
         ""),
 "C05": ("branch-condition stacks incl. short-circuit operands in lex_string (S2)",
         " (S2) after the closing quote of a plain literal nothing further is consumed: consuming calls on a quote character require triple_quoted on their path."),
 "C06": ("conversion inventory of parse_bytes (B2); evaluation of lex_string's opening and closing quote decisions over (triple_quoted, two more quotes follow), following a private helper one level (S1); provenance of the value fields of Int/Float/Complex tokens (V1)",
         " (B2) decoded characters become bytes by `as u8` truncation only (an octal escape above \\377 keeps its low 8 bits)."),
 "C08": ("interpretation of compare_strict over the 3x3 partition of (tabs, spaces) directions (T1, shared with C04.L2)",
         " (T1) TabError exactly in the two mixed-direction cells; more tabs and more spaces is accepted."),
 "C11": ("token-level access inventory of the separator flags handed to p_delim (D1)",
         " (D1) a `first` flag is read and cleared only together, so no separator is lost after a printed element."),
 "C12": ("def-use closure (lets, loops, pushes, match bindings, closure parameters) per hand-written fold in source_locator.rs (H1)",
         " (H1) every field of a node rebuilt by a hand-written fold is derived from the same-named field of the incoming node."),
 "C13": ("guard analysis of every U+FEFF test in the line index and the linear locator, incl. a guard handed to a helper as a bool argument (B1b); str::lines inventory in the locator sources (T1)",
         " (B1b, reported as C13.B1) only a leading BOM is discounted, in both locators; (T1) no std `lines()` (which ignores a lone CR) in locator code."),
 "C19": ("reachability of the '*' test from both quantity readers (Q2); evaluation of the minus-sign condition on -0.0, +/-inf, +/-NaN (S1); one-local rule for the precision-cut bytes (B1); consume_length interpreted for every next character; has_key interpreted on literal / unkeyed / keyed specifiers (K1)",
         " (S1) as C18.S1 for %-formatting; (B1) bytes are padded by the length that is written; (K1) `%()s` is a keyed specifier."),
 "C18": ("arm selection of the presentation-type dispatch of format_float/format_int for every FormatType value by pattern evaluation (T3); one-level interpretation of private helper methods in the grouped-padding rule (A3)",
         " (T3) floats reject d b o x X s c and 'N', ints reject s and 'N', everything else is formatted."),
}
for _k, (_t, _c) in ADD6.items():
    _a = ADD.get(_k, ("", ""))
    ADD[_k] = ((_a[0] + "; " + _t) if _a[0] else _t, _a[1] + _c)

def main():
    props = [json.loads(l) for l in open(os.path.join(HERE, "properties.jsonl"))]
    checks, na = [], []
    for p in props:
        pid = p["id"]
        if pid in CLAIMED:
            ref, tech, text, note = CLAIMED[pid]
            if pid in ADD:
                tech = tech + "; " + ADD[pid][0]
                text = text + ADD[pid][1]
            tech = tech + "." + COMMON_TECH
            checks.append({
                "property_id": pid,
                "quick_cmd": f"bin/check {pid} quick",
                "thorough_cmd": f"bin/check {pid} thorough",
                "evidence_file": f"evidence/{pid}.json",
                "replay_cmd_template": "bin/check --replay {path}",
                "engine": "rpverif",
                "level_claimed": {"category": "other", "text": text, "design_ref": ref},
                "level_note": note,
                "technique": tech,
            })
        elif pid in NA_FINAL:
            na.append({"property_id": pid, "reason": NA_FINAL[pid]})
        else:
            na.append({"property_id": pid, "reason": "not claimed in this revision: the static rules planned for it in DESIGN.md section 4 are not built yet, so no verdict is given (it is not declared undecidable)"})
    m = {
        "version": 1,
        "setup_cmd": "cd tools/rpverif && CARGO_NET_OFFLINE=true cargo build --release --offline && cd ../mirfacts && CARGO_NET_OFFLINE=true cargo +nightly build --release --offline",
        "hooks": {
            "guard": "rustpython_parser_verif",
            "enable": "none needed: every check is a static analysis of /repo's sources; nothing in /repo is compiled with a guard",
            "baseline_off_cmd": "cd /repo && cargo test --workspace --no-fail-fast --offline",
            "source_commits": [],
            "add_only": True,
        },
        "engines": [
            {"name": "rpverif", "path": "tools/rpverif", "serves_properties": sorted(CLAIMED), "kind_free_text": "syn-based source model + LALRPOP grammar reader/regenerator + rule engine + syntax-tree partition interpreter (static analysis; nothing of the subject is executed)"},
            {"name": "mirfacts", "path": "tools/mirfacts", "serves_properties": [p for p in sorted(CLAIMED) if p in ("C03", "C08", "C09", "C18", "C19")], "kind_free_text": "nightly rustc_private driver run as RUSTC_WORKSPACE_WRAPPER under `cargo +nightly check` (type-check only): dumps resolved call edges, assert terminators, integer casts/binops from MIR; facts cached under .cache keyed by a hash of the tree"},
        ],
        "checks": checks,
        "not_applicable": na,
        "notes": "Technique family: static analysis only. Every claimed check decides structural necessary conditions of its property (DESIGN.md section 4 and Part II section 9.4, generated from the evidence) from /repo's current sources; none runs the subject. Known findings and the list of repaired defects: known_findings.json. Self-tests (development aids, not registered commands): seeded/ (64 verified breaking changes), selftest/reverts (reverse patches of the 15 fix: commits), selftest/neutral (36 behaviour-preserving refactorings that must stay silent).",
    }
    json.dump(m, open(os.path.join(HERE, "MANIFEST.json"), "w"), indent=1)
    print("claimed:", sorted(CLAIMED), "na:", [x["property_id"] for x in na])

if __name__ == "__main__":
    main()
