#!/usr/bin/env python3
"""Regenerates /verif/MANIFEST.json from the table below (development aid; the manifest is committed)."""
import json, sys, os
HERE = os.path.dirname(os.path.dirname(os.path.abspath(__file__)))

NA_FINAL = {
 "C07": "f-string decomposition is decided by a hand-written scanner's value-dependent control flow (delimiter stack, '!'/'='/':' look-ahead); no sound static argument in reach bounds it. The structural facts it rests on (conversion table, re-basing constant, nesting bound, position advancer) are checked under C06/C02/C03.",
 "C15": "boundary-condition arithmetic over text contents (CR at end, CRLF split, BOM, double-ended iteration state); no clause beyond the TextRange constructor invariant (claimed under C02) is visible in the shape of the code.",
 "C17": "per-value exact numerical results (shortest round-trip digits, notation thresholds, %e/%f/%g digits); no static argument bounds them.",
 "C20": "acceptance set and split points of a hand-written scanner defined only by comparison with CPython's; purely value-level.",
}

# id -> (design_ref, technique, level text, level note)
CLAIMED = {}

def claim(pid, ref, technique, text, note):
    CLAIMED[pid] = (ref, technique, text, note)

COMMON_NOTE = " Trusted base: rustc/cargo, syn (parsing), Rust std semantics; reference tables under /verif/refdata where named. A green check means no structural precondition of the property is broken on the current tree; it does not decide the behaviour for all inputs."

claim("C12", "DESIGN.md §4 C12, §3.4",
      "static analysis: field-wise homomorphism of generated fold/visitor code against the AST type definitions (syn), shape rules on Foldable impls and ConstantOptimizer",
      "Decides the structural clauses C12.F1-F4 (every one of the generated struct/enum folds rebuilds every field exactly once from itself, range mapped once with the context taken before children; Foldable for Vec/Option/Box shape-preserving), C12.V1 (default Visitor visits every node-typed field exactly once with the right method; exhaustive dispatch) and C12.O1 (optimizer special-cases only load-context all-constant tuples). Together F1-F4 are a proof by structural induction that an identity folder is the identity and map_user runs once per range-carrying node. These are necessary conditions checked for ALL node kinds, which sampling trees cannot give.",
      "Static rule discharge over ast/src/gen/{generic,fold,visitor}.rs, ast/src/fold.rs, ast/src/optimizer.rs." + COMMON_NOTE)

claim("C01", "DESIGN.md §4 C01, §2.2, §3.1-3.3",
      "static analysis: translation validation of python.rs against lalrpop(python.lalrpop) (G1); table agreement of keyword/operator/start-marker tables against Python 3.11 refdata; dataflow over grammar actions (context discipline, binding-order vs ASDL source order); deviant-alternative rules",
      "Decides structural necessary conditions only: (G1) the compiled python.rs equals the regenerated parser for the checked-in grammar, so every grammar-level rule speaks about the compiled parser; (T1-T4) keyword, operator, operator-tag and start-marker tables equal the Python 3.11 reference tables; (X1) load/store/del discipline: every ctx literal is Load except the two binding targets, all 8 target positions go through set_context, set_context covers every ctx-carrying Expr variant; (O1) in every AST literal of every action the fields take their values from bindings in reference source order (catches swapped operands/branches in any un-snapshotted production); (D1/D2) trailing-comma singleton and paren-sensitive flag deviants; (S1/S2) the soft-keyword pass is a same-range relabelling whose look-ahead flags are top-level-only; (I1, X2) import dots and argument partition order. It does not decide that the grammar accepts exactly Python or that node kinds are the reference's for every program.",
      "Static rule discharge over parser/src/python.lalrpop, python.rs, build.rs, token.rs, soft_keywords.rs, context.rs, function.rs, parser.rs, ast/src/gen/generic.rs; oracle tables refdata/py311_tokens.json, py311_ops.json, asdl_source_order.json; the lalrpop 0.20.2 generator is trusted as the regeneration oracle." + COMMON_NOTE)

def main():
    props = [json.loads(l) for l in open(os.path.join(HERE, "properties.jsonl"))]
    checks, na = [], []
    for p in props:
        pid = p["id"]
        if pid in CLAIMED:
            ref, tech, text, note = CLAIMED[pid]
            checks.append({
                "property_id": pid,
                "quick_cmd": f"bin/check {pid} quick",
                "thorough_cmd": f"bin/check {pid} thorough",
                "evidence_file": f"evidence/{pid}.json",
                "replay_cmd_template": "bin/check --replay {path}",
                "engine": "rpverif",
                "level_claimed": {"category": "other", "text": text, "design_ref": ref},
                "level_note": note,
                "technique": tech,
            })
        elif pid in NA_FINAL:
            na.append({"property_id": pid, "reason": NA_FINAL[pid]})
        else:
            na.append({"property_id": pid, "reason": "not claimed in this revision: the static rules planned for it in DESIGN.md section 4 are not built yet, so no verdict is given (it is not declared undecidable)"})
    m = {
        "version": 1,
        "setup_cmd": "cd tools/rpverif && CARGO_NET_OFFLINE=true cargo build --release --offline",
        "hooks": {
            "guard": "rustpython_parser_verif",
            "enable": "none needed: every check is a static analysis of /repo's sources; nothing in /repo is compiled with a guard",
            "baseline_off_cmd": "cd /repo && cargo test --workspace --no-fail-fast --offline",
            "source_commits": [],
            "add_only": True,
        },
        "engines": [
            {"name": "rpverif", "path": "tools/rpverif", "serves_properties": sorted(CLAIMED), "kind_free_text": "syn-based source model + LALRPOP grammar reader/regenerator + rule engine (static analysis; nothing of the subject is executed)"},
        ],
        "checks": checks,
        "not_applicable": na,
        "notes": "Technique family: static analysis only. Every claimed check decides structural necessary conditions of its property (DESIGN.md section 4) from /repo's current sources; none runs the subject. Known findings: known_findings.json.",
    }
    json.dump(m, open(os.path.join(HERE, "MANIFEST.json"), "w"), indent=1)
    print("claimed:", sorted(CLAIMED), "na:", [x["property_id"] for x in na])

if __name__ == "__main__":
    main()
