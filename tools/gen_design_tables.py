#!/usr/bin/env python3
"""Development aid: regenerate the generated sections of DESIGN.md (between <!-- X:BEGIN --> / <!-- X:END -->)
from evidence/*.json, seeded/matrix.json + seeded/*/meta.json and selftest/neutral/matrix.json + *.json."""
import json, os, glob, re
VERIF = os.path.dirname(os.path.dirname(os.path.abspath(__file__)))

def esc(s):
    return s.replace('|', '\\|').replace('\n', ' ')

def rules_section():
    out = []
    for p in sorted(glob.glob(os.path.join(VERIF, 'evidence', 'C*.json'))):
        e = json.load(open(p))
        pid = e['property_id']
        cov = e['coverage']
        out.append(f"**{pid}** — {cov['evaluations']} rule instances examined on the unchanged tree, {len(cov.get('known_findings', []))} known findings.\n")
        out.append("| rule | instances | statement |")
        out.append("|---|---|---|")
        for r in cov['rules']:
            st = r.get('statement', '')
            out.append(f"| {r['id']} | {r['instances']} | {esc(st)} |")
        out.append("")
    return "\n".join(out)

def summary_of(meta):
    s = meta.get('summary') or meta.get('what') or ''
    s = re.sub(r'\s+', ' ', s)
    return (s[:230] + '…') if len(s) > 230 else s

def mutants_section():
    mp = os.path.join(VERIF, 'seeded', 'matrix.json')
    if not os.path.exists(mp):
        return "_(matrix not generated yet)_"
    m = json.load(open(mp))
    out = ["| change | what was changed | caught by (own property) | also reported under |", "|---|---|---|---|"]
    missed = []
    for name in sorted(m):
        caught = m[name]
        if name.startswith('revert-'):
            continue
        own = name.split('-')[0]
        meta_p = os.path.join(VERIF, 'seeded', name, 'meta.json')
        meta = json.load(open(meta_p)) if os.path.exists(meta_p) else {}
        if caught is None:
            out.append(f"| {name} | {esc(summary_of(meta))} | PATCH DOES NOT APPLY | |")
            continue
        own_rules = ", ".join(caught.get(own, [])) or "**not caught**"
        if own not in caught:
            missed.append(name)
        others = "; ".join(f"{k}: {', '.join(v)}" for k, v in sorted(caught.items()) if k != own)
        out.append(f"| {name} | {esc(summary_of(meta))} | {own_rules} | {esc(others)} |")
    out.append("")
    out.append("Reverse patches of the `fix:` commits (the defect returns):")
    out.append("")
    out.append("| reverted commit | reported by |")
    out.append("|---|---|")
    for name in sorted(m):
        if not name.startswith('revert-'):
            continue
        caught = m[name]
        rep = "PATCH DOES NOT APPLY" if caught is None else ("; ".join(f"{k}: {', '.join(v)}" for k, v in sorted(caught.items())) or "**not caught**")
        out.append(f"| {name[7:]} | {esc(rep)} |")
    n = len([k for k in m if not k.startswith('revert-')])
    out.append("")
    out.append(f"Summary: {n - len(missed)} of {n} seeded changes are reported by a check of the property they were written against" + (f"; not caught: {', '.join(missed)}" if missed else "") + ".")
    return "\n".join(out)

def neutral_section():
    mp = os.path.join(VERIF, 'selftest', 'neutral', 'matrix.json')
    if not os.path.exists(mp):
        return "_(matrix not generated yet)_"
    m = json.load(open(mp))
    out = ["| patch | kind of refactoring | files | result |", "|---|---|---|---|"]
    loud = 0
    for name in sorted(m):
        meta_p = os.path.join(VERIF, 'selftest', 'neutral', name + '.json')
        meta = json.load(open(meta_p)) if os.path.exists(meta_p) else {}
        files = ", ".join(os.path.basename(f) for f in meta.get('files', []))
        r = m[name]
        if r is None:
            res = "PATCH DOES NOT APPLY"
        elif not r:
            res = "silent"
        else:
            loud += 1
            res = "**alarm**: " + "; ".join(f"{k}: {', '.join(v)}" for k, v in sorted(r.items()))
        out.append(f"| {name} | {esc(str(meta.get('kind', ''))[:120])} | {esc(files)} | {esc(res)} |")
    out.append("")
    out.append(f"Summary: {len(m) - loud} of {len(m)} behaviour-preserving patches leave all {16} checks silent.")
    return "\n".join(out)

def main():
    p = os.path.join(VERIF, 'DESIGN.md')
    s = open(p).read()
    for tag, fn in [('RULES', rules_section), ('MUTANTS', mutants_section), ('NEUTRAL', neutral_section)]:
        b, e = f"<!-- {tag}:BEGIN -->", f"<!-- {tag}:END -->"
        i, j = s.index(b) + len(b), s.index(e)
        s = s[:i] + "\n" + fn() + "\n" + s[j:]
    open(p, 'w').write(s)
    print("DESIGN.md tables regenerated")
main()
