#!/usr/bin/env python3
"""Development aid: apply a patch to a scratch copy of /repo and run checks against the copy.
usage: selftest.py <patch.diff> <ID> [<ID>...]   (ID 'all' = every claimed property)
The scratch copy lives outside /repo and /verif and is removed afterwards. Manifest commands never use this."""
import sys, os, subprocess, tempfile, shutil, json
VERIF = os.path.dirname(os.path.dirname(os.path.abspath(__file__)))
def main():
    patch = os.path.abspath(sys.argv[1]) if sys.argv[1] != '-' else None
    ids = sys.argv[2:]
    if ids == ['all']:
        m = json.load(open(os.path.join(VERIF, 'MANIFEST.json')))
        ids = [c['property_id'] for c in m['checks']]
    tmp = tempfile.mkdtemp(prefix='rpv-st-')
    try:
        repo = os.path.join(tmp, 'repo'); vd = os.path.join(tmp, 'verif')
        subprocess.check_call(['rsync', '-a', '--exclude', 'target', '--exclude', '.git', '/repo/', repo + '/'])
        os.makedirs(vd)
        shutil.copy(os.path.join(VERIF, 'known_findings.json'), vd)
        shutil.copytree(os.path.join(VERIF, 'refdata'), os.path.join(vd, 'refdata'))
        if patch:
            if patch.endswith('.gz'):
                import gzip
                plain = os.path.join(tmp, 'patch.diff')
                open(plain, 'wb').write(gzip.open(patch).read())
                patch = plain
            r = subprocess.run(['patch', '-p1', '-s', '-i', patch], cwd=repo)
            if r.returncode != 0:
                print('PATCH FAILED'); return 2
        env = dict(os.environ, VERIF_REPO=repo, VERIF_DIR=vd)
        if any(i in ('C03', 'C08', 'C09', 'C18', 'C19') for i in ids):
            shutil.copy('/repo/Cargo.lock', repo)
            r = subprocess.run([os.path.join(VERIF, 'bin/mirfacts'), repo], capture_output=True, text=True, env=env)
            if r.returncode != 0:
                print('  MIR facts could not be produced for the patched tree (does it compile?):', r.stderr[-300:])
            else:
                env['MIRFACTS_DIR'] = r.stdout.strip()
        exe = os.path.join(VERIF, 'tools/rpverif/target/release/rpverif')
        caught = []
        for i in ids:
            r = subprocess.run([exe, 'check', i, 'quick'], env=env, capture_output=True, text=True)
            lines = [l for l in r.stdout.splitlines() if l.startswith('FINDING') or l.startswith('VIOLATION')]
            if r.returncode != 0:
                caught.append(i)
                for l in lines:
                    if l.startswith('FINDING'): print(f'  [{i}] ' + l[:300])
            if r.returncode not in (0, 1):
                print(f'  [{i}] exit {r.returncode}: {r.stderr[-300:]}')
        print('CAUGHT by:', caught if caught else 'NONE')
        return 0
    finally:
        shutil.rmtree(tmp, ignore_errors=True)
sys.exit(main())
