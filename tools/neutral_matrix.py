#!/usr/bin/env python3
"""Development aid: run every claimed check against every seeded mutant (and the revert patches of the fix commits)
on scratch copies of /repo; prints and stores a matrix mutant -> checks that report a violation."""
import sys, os, subprocess, tempfile, shutil, json, glob
VERIF = os.path.dirname(os.path.dirname(os.path.abspath(__file__)))
def run(patch, ids):
    tmp = tempfile.mkdtemp(prefix='rpv-mx-')
    try:
        repo = os.path.join(tmp, 'repo'); vd = os.path.join(tmp, 'verif')
        subprocess.check_call(['rsync', '-a', '--exclude', 'target', '--exclude', '.git', '/repo/', repo + '/'])
        os.makedirs(vd); shutil.copy(os.path.join(VERIF, 'known_findings.json'), vd); shutil.copytree(os.path.join(VERIF, 'refdata'), os.path.join(vd, 'refdata'))
        if patch.endswith('.gz'):
            import gzip
            plain = os.path.join(tmp, 'patch.diff')
            open(plain, 'wb').write(gzip.open(patch).read())
            patch = plain
        if subprocess.run(['patch', '-p1', '-s', '-i', patch], cwd=repo).returncode != 0:
            return None
        env = dict(os.environ, VERIF_REPO=repo, VERIF_DIR=vd)
        shutil.copy('/repo/Cargo.lock', repo)
        r = subprocess.run([os.path.join(VERIF, 'bin/mirfacts'), repo], capture_output=True, text=True, env=env)
        if r.returncode == 0: env['MIRFACTS_DIR'] = r.stdout.strip()
        exe = os.environ.get('RPVERIF_EXE', os.path.join(VERIF, 'tools/rpverif/target/release/rpverif'))
        caught = {}
        for i in ids:
            r = subprocess.run([exe, 'check', i, 'quick'], env=env, capture_output=True, text=True)
            if r.returncode != 0:
                rules = sorted({l.split('rule=')[1].split(' ')[0] for l in r.stdout.splitlines() if l.startswith('FINDING')})
                caught[i] = rules
        return caught
    finally:
        shutil.rmtree(tmp, ignore_errors=True)
def main():
    m = json.load(open(os.path.join(VERIF, 'MANIFEST.json')))
    ids = [c['property_id'] for c in m['checks']]
    # MX_IDS="C03 C13": re-run only these properties and merge the cells into the stored matrix (after a change to
    # their rules only); MX_ONLY="C03-11 ...": only these patches (new entries), all properties unless MX_IDS is set
    only_ids = os.environ.get('MX_IDS', '').split()
    only_pats = os.environ.get('MX_ONLY', '').split()
    if only_ids: ids = [i for i in ids if i in only_ids]
    out = {}
    pats = sorted(glob.glob(os.path.join(VERIF, 'selftest/neutral/*.diff')) + glob.glob(os.path.join(VERIF, 'selftest/neutral/*.diff.gz')))
    if only_pats: pats = [p for p in pats if os.path.basename(p).split('.diff')[0] in only_pats]
    from concurrent.futures import ThreadPoolExecutor
    def one(p):
        name = os.path.basename(p).split('.diff')[0]
        c = run(p, ids)
        print(name, '->', 'PATCH FAILED' if c is None else (c if c else 'silent (ok)'), flush=True)
        return name, c
    with ThreadPoolExecutor(max_workers=int(os.environ.get('MX_JOBS', '5'))) as ex:
        for n, c in ex.map(one, pats):
            out[n] = c
    mp = os.path.join(VERIF, 'selftest/neutral/matrix.json')
    if only_ids or only_pats:
        old = json.load(open(mp))
        for n, c in out.items():
            if c is None: old[n] = None; continue
            prev = {k: v for k, v in (old.get(n) or {}).items() if only_ids and k not in only_ids}
            prev.update(c); old[n] = dict(sorted(prev.items()))
        out = dict(sorted(old.items()))
    json.dump(out, open(mp, 'w'), indent=1)
main()
